//! C18, several swarms in one state: the identifier variants of the PSO components, composed by
//! hand into a two-swarm search (swarm `Global` and swarm `A`, each with its own population on
//! the stack, its own velocities and its own best memories, `RotatePopulations` between them).
//! The harness records, independently of the library, the best position every particle of every
//! swarm has been evaluated at, and compares each swarm's memories with it after every update.

use crate::framework::*;
use crate::rng::{self, Fp, SimRng};
use crate::tw::problems::*;
use mahf::components::swarm::pso::{
    BestParticle, BestParticles, GlobalBestParticleUpdate, ParticleVelocities, ParticleVelocitiesInit, ParticleVelocitiesUpdate, PersonalBestParticlesInit, PersonalBestParticlesUpdate,
};
use mahf::components::utils::populations::RotatePopulations;
use mahf::components::{boundary, initialization, Component};
use mahf::conditions::LessThanN;
use mahf::identifier::{Global, Identifier, A};
use mahf::problems::Sequential;
use mahf::state::common::Populations;
use mahf::{Configuration, ExecResult, Random, State};
use serde::{Deserialize, Serialize};
use std::sync::{Arc, Mutex};

#[derive(Clone, Debug, Serialize, Deserialize)]
pub struct SwarmsCase {
    pub problem: RealSpec,
    /// particles of the default swarm / of swarm `A`
    pub sizes: (u32, u32),
    pub v_max: f64,
    pub weight: f64,
    pub c1: f64,
    pub c2: f64,
    pub iterations: u32,
    pub seed: u64,
    /// which swarm's population is created first (lies lower on the stack)
    pub a_first: bool,
    /// size of a scouting phase before the swarms exist (0 = none): random points are evaluated
    /// and recorded as the run's best individual, then discarded - the swarms' memories are about
    /// the swarms' own particles all the same
    #[serde(default)]
    pub scout: u32,
}

/// Discards the current population (the scouts).
#[derive(Clone, Serialize)]
struct DropPopulation;
impl Component<RealP> for DropPopulation {
    fn execute(&self, _problem: &RealP, state: &mut State<RealP>) -> ExecResult<()> {
        let _ = state.populations_mut().try_pop();
        Ok(())
    }
}

pub struct TwoSwarms;

/// (solution, objective) the particle was best at, first-best wins
type History = Arc<Mutex<Vec<(Vec<f64>, f64)>>>;
type Found = Arc<Mutex<Vec<Violation>>>;

/// Records the just evaluated current population of a swarm.
#[derive(Clone)]
struct Record {
    history: History,
}
impl Serialize for Record {
    fn serialize<S: serde::Serializer>(&self, s: S) -> Result<S::Ok, S::Error> {
        s.serialize_unit_struct("Record")
    }
}
impl Component<RealP> for Record {
    fn execute(&self, _problem: &RealP, state: &mut State<RealP>) -> ExecResult<()> {
        let mut h = self.history.lock().unwrap();
        let pops = state.try_borrow::<Populations<RealP>>()?;
        let cur = pops.current();
        if h.is_empty() {
            *h = cur.iter().map(|p| (p.solution().clone(), p.objective().value())).collect();
        } else {
            for (best, p) in h.iter_mut().zip(cur.iter()) {
                if p.objective().value() < best.1 {
                    *best = (p.solution().clone(), p.objective().value());
                }
            }
        }
        Ok(())
    }
}

/// Compares the memories of swarm `I` with the recorded history.
struct CheckSwarm<I> {
    name: &'static str,
    history: History,
    found: Found,
    _i: std::marker::PhantomData<fn() -> I>,
}
impl<I> Clone for CheckSwarm<I> {
    fn clone(&self) -> Self {
        CheckSwarm { name: self.name, history: self.history.clone(), found: self.found.clone(), _i: std::marker::PhantomData }
    }
}
impl<I> Serialize for CheckSwarm<I> {
    fn serialize<S: serde::Serializer>(&self, s: S) -> Result<S::Ok, S::Error> {
        s.serialize_unit_struct("CheckSwarm")
    }
}
impl<I: Identifier> Component<RealP> for CheckSwarm<I> {
    fn execute(&self, _problem: &RealP, state: &mut State<RealP>) -> ExecResult<()> {
        let h = self.history.lock().unwrap();
        let name = self.name;
        let mut found = self.found.lock().unwrap();
        if !found.is_empty() {
            return Ok(());
        }
        let n = state.try_borrow::<Populations<RealP>>()?.current().len();
        let (Ok(pb), Ok(gb), Ok(v)) = (state.try_borrow::<BestParticles<RealP, I>>(), state.try_borrow::<BestParticle<RealP, I>>(), state.try_borrow::<ParticleVelocities<I>>()) else {
            found.push(Violation::new("swarms memory-missing", format!("swarm {name}: velocities or best memories of the swarm are not in the state after its update")));
            return Ok(());
        };
        if pb.len() != n || v.len() != n || h.len() != n {
            found.push(Violation::new("swarms collections-unaligned", format!("swarm {name}: {n} particles, {} personal bests, {} velocities", pb.len(), v.len())));
            return Ok(());
        }
        for (i, (b, exp)) in pb.iter().zip(h.iter()).enumerate() {
            let val = b.get_objective().map(|o| o.value());
            if val != Some(exp.1) || b.solution() != &exp.0 {
                found.push(Violation::new(
                    "swarms personal-best-not-best-evaluated-position",
                    format!("swarm {name}, particle {i}: the personal best is {val:?} at {:?}, the best position the particle was evaluated at is {} at {:?}", b.solution(), exp.1, exp.0),
                ));
                return Ok(());
            }
        }
        let min = h.iter().map(|x| x.1).fold(f64::INFINITY, f64::min);
        let g = gb.as_ref().and_then(|i| i.get_objective().map(|o| o.value()));
        if n > 0 && g != Some(min) {
            found.push(Violation::new("swarms global-best-not-best-personal-best", format!("swarm {name}: the global best is {g:?}, the best personal best is {min}")));
        }
        Ok(())
    }
}

fn swarm_init<I: Identifier>(n: u32, v_max: f64, history: &History) -> ExecResult<Vec<Box<dyn Component<RealP>>>> {
    Ok(vec![
        initialization::RandomSpread::new(n),
        mahf::components::evaluation::PopulationEvaluator::new(),
        Box::new(Record { history: history.clone() }),
        ParticleVelocitiesInit::<I>::new(v_max)?,
        PersonalBestParticlesInit::<I>::new(),
        GlobalBestParticleUpdate::<I>::new(),
    ])
}

fn swarm_step<I: Identifier>(name: &'static str, c: &SwarmsCase, history: &History, found: &Found) -> ExecResult<Vec<Box<dyn Component<RealP>>>> {
    Ok(vec![
        ParticleVelocitiesUpdate::<I>::new_with_id(c.weight, c.c1, c.c2, c.v_max)?,
        boundary::Saturation::new(),
        mahf::components::evaluation::PopulationEvaluator::new(),
        Box::new(Record { history: history.clone() }),
        PersonalBestParticlesUpdate::<I>::new(),
        GlobalBestParticleUpdate::<I>::new(),
        Box::new(CheckSwarm::<I> { name, history: history.clone(), found: found.clone(), _i: std::marker::PhantomData }),
    ])
}

impl World for TwoSwarms {
    type Case = SwarmsCase;
    fn name(&self) -> &'static str {
        "two-swarms"
    }
    fn generate(&self, run_seed: u64, tier: Tier) -> SwarmsCase {
        let mut g = rng::stream(run_seed, "workload");
        let problem = gen_real(&mut g, false, 3);
        let width = problem.hi - problem.lo;
        SwarmsCase {
            sizes: (1 + g.below(8) as u32, 1 + g.below(8) as u32),
            v_max: width * *g.pick(&[0.01, 0.1, 1.0]),
            weight: g.f64_in(0.0, 1.2),
            c1: if g.chance(0.2) { 0.0 } else { g.f64_in(0.0, 3.0) },
            c2: if g.chance(0.2) { 0.0 } else { g.f64_in(0.0, 3.0) },
            iterations: g.below(tier.pick(12, 40)) as u32,
            seed: g.u64(),
            a_first: g.chance(0.5),
            scout: if g.chance(0.3) { 10 + g.below(50) as u32 } else { 0 },
            problem,
        }
    }
    fn execute(&self, c: &SwarmsCase) -> Outcome<SwarmsCase> {
        let mut out = Outcome::new();
        out.evaluations = 1;
        let problem = RealP::new(c.problem.clone());
        let (hd, ha): (History, History) = Default::default();
        let found: Found = Default::default();
        let build = || -> ExecResult<Configuration<RealP>> {
            let init_d = swarm_init::<Global>(c.sizes.0, c.v_max, &hd)?;
            let init_a = swarm_init::<A>(c.sizes.1, c.v_max, &ha)?;
            let step_d = swarm_step::<Global>("default", c, &hd, &found)?;
            let step_a = swarm_step::<A>("A", c, &ha, &found)?;
            // the population created last is on top: it moves first
            let (first_init, second_init, top_step, low_step) = if c.a_first { (init_a, init_d, step_d, step_a) } else { (init_d, init_a, step_a, step_d) };
            let b = Configuration::builder();
            let b = if c.scout > 0 { b.do_(initialization::RandomSpread::new(c.scout)).evaluate().update_best_individual().do_(Box::new(DropPopulation)) } else { b };
            Ok(b
                .do_many_(first_init)
                .do_many_(second_init)
                .while_(LessThanN::iterations(c.iterations), move |b| b.do_many_(top_step).do_(RotatePopulations::new(1)).do_many_(low_step).do_(RotatePopulations::new(1)))
                .build())
        };
        let config = match build() {
            Ok(cfg) => cfg,
            Err(e) => {
                eprintln!("harness error: two-swarm assembly rejected generated parameters: {e:#}");
                std::process::exit(2);
            }
        };
        let seed = c.seed;
        let r = guarded(|| {
            config.optimize_with(&problem, |state| {
                state.insert(Random::with_rng::<SimRng>(seed));
                state.insert_evaluator(Sequential::<RealP>::new());
                Ok(())
            })
        });
        out.steps = problem.instr().n_calls() as u64 + 13 * c.iterations as u64;
        let mut fp = Fp::new();
        fp.str(&format!("{:?}{}", c.sizes, c.iterations));
        fp.u64(problem.instr().n_calls() as u64);
        fp.u64(ha.lock().unwrap().iter().map(|x| x.1.to_bits()).fold(0, |a, b| a ^ b.rotate_left(7)));
        if c.iterations > 0 {
            out.fingerprints.push(fp.0);
        }
        bump(&mut out.counters, "probe:two swarms with their own memories in one state", 1);
        if c.scout > 0 {
            bump(&mut out.counters, "probe:scouting phase recorded a best individual before the swarms existed", 1);
        }
        if c.sizes.0 != c.sizes.1 {
            bump(&mut out.counters, "probe:swarms of different sizes", 1);
        }
        let v = match r {
            Ok(Ok(_)) => found.lock().unwrap().first().cloned(),
            Ok(Err(e)) => Some(Violation::new("swarms run-failed kind=error", format!("two-swarm search returned Err: {}", format!("{e:#}").chars().take(200).collect::<String>()))),
            Err(p) => Some(Violation::new("swarms run-failed kind=panic", format!("two-swarm search panicked: {p}"))),
        };
        if let Some(v) = v {
            out.violation = Some((v, c.clone()));
        }
        out
    }
    fn shrink(&self, c: &SwarmsCase) -> Vec<SwarmsCase> {
        let mut v = Vec::new();
        if c.iterations > 1 {
            v.push(SwarmsCase { iterations: c.iterations / 2, ..c.clone() });
            v.push(SwarmsCase { iterations: c.iterations - 1, ..c.clone() });
        }
        if c.sizes.0 > 1 {
            v.push(SwarmsCase { sizes: (c.sizes.0 - 1, c.sizes.1), ..c.clone() });
        }
        if c.sizes.1 > 1 {
            v.push(SwarmsCase { sizes: (c.sizes.0, c.sizes.1 - 1), ..c.clone() });
        }
        if c.scout > 0 {
            v.push(SwarmsCase { scout: 0, ..c.clone() });
        }
        if c.problem.dim > 1 {
            let mut p = c.problem.clone();
            p.dim -= 1;
            v.push(SwarmsCase { problem: p, ..c.clone() });
        }
        v
    }
}
