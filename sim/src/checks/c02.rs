//! C02 — dynamic borrows: many readers xor one writer per (scope, type); conflicts are errors;
//! multi-borrow; `holding` puts the state back where it came from.

use crate::checks::c01::{HistCase, Histories};
use crate::engine::multi::MultiOutcome;
use crate::engine::multi_catalogue::catalogue;
use crate::engine::ops::*;
use crate::engine::types::*;
use crate::framework::*;
use crate::rng::{self, Fp, Gen};
use crate::with_ty;
use mahf::{State, StateError, StateRegistry};
use serde::{Deserialize, Serialize};
use std::cell::{Ref, RefMut};
use std::collections::BTreeMap;

// ---------------------------------------------------------------------------------------------
// guard micro-histories

#[derive(Clone, Debug, Serialize, Deserialize, PartialEq)]
pub enum GOp {
    /// api: 0 = try_borrow / try_borrow_mut, 1 = try_borrow_value / try_borrow_value_mut
    Acquire { up: u8, t: u8, excl: bool, api: u8 },
    /// panicking borrow / borrow_mut / borrow_value / borrow_value_mut
    AcquirePanicking { up: u8, t: u8, excl: bool, api: u8 },
    Read(usize),
    Write(usize, u32),
    Drop(usize),
    TryGet { up: u8, t: u8 },
    /// panicking get_value
    Get { up: u8, t: u8 },
    Set { up: u8, t: u8, v: u32 },
    /// `contains::<T>()` (which = 0), `contains_at_top` (1), `find(..).is_ok()` (2): presence is
    /// not a borrow - live guards of any kind never change the answer
    Present { up: u8, t: u8, which: u8 },
    /// one more shared guard on the best-individual memory (kept until the end of the history)
    AcquireBestShared,
    /// `best_objective_value()` / `best_individual()`: quiet readers, never refused next to readers
    BestValue,
}

#[derive(Clone, Debug, Serialize, Deserialize)]
pub struct GuardCase {
    /// scope levels, outermost first: type -> initial value
    pub layout: Vec<BTreeMap<u8, u32>>,
    pub ops: Vec<GOp>,
}

#[derive(Clone, Debug, PartialEq)]
enum GRes {
    NotFound,
    ConflictImm,
    ConflictMut,
    Granted,
    Panicked,
    Val(u32),
    Opt(Option<u32>),
    Bool(bool),
    Noop,
    Unexpected(String),
}

#[derive(Clone, Default)]
struct Cell {
    val: u32,
    readers: u32,
    writer: bool,
}

struct GModel {
    levels: Vec<BTreeMap<u8, Cell>>,
    /// (level, type, exclusive)
    arena: Vec<Option<(usize, u8, bool)>>,
}

impl GModel {
    fn resolve(&self, up: u8, t: u8) -> Option<usize> {
        let start = self.levels.len() - 1 - (up as usize).min(self.levels.len() - 1);
        (0..=start).rev().find(|&i| self.levels[i].contains_key(&t))
    }
    fn live(&self) -> usize {
        self.arena.iter().filter(|g| g.is_some()).count()
    }
    fn apply(&mut self, op: &GOp, c: &mut Counters) -> GRes {
        match op {
            GOp::Acquire { up, t, excl, .. } | GOp::AcquirePanicking { up, t, excl, .. } => {
                let panicking = matches!(op, GOp::AcquirePanicking { .. });
                let Some(l) = self.resolve(*up, *t) else {
                    return if panicking { GRes::Panicked } else { GRes::NotFound };
                };
                // does another scope hold a guarded value of the same type?
                let other_scope_guarded = self.arena.iter().flatten().any(|(gl, gt, _)| gt == t && *gl != l);
                let cell = self.levels[l].get_mut(t).unwrap();
                let refused = if *excl { cell.writer || cell.readers > 0 } else { cell.writer };
                if refused {
                    bump(c, if *excl { "probe:exclusive request refused" } else { "probe:shared request refused" }, 1);
                    if panicking {
                        bump(c, "probe:panicking accessor must panic on conflict", 1);
                        return GRes::Panicked;
                    }
                    return if *excl { GRes::ConflictMut } else { GRes::ConflictImm };
                }
                if other_scope_guarded {
                    bump(c, "probe:granted while the same type is guarded in another scope", 1);
                }
                if *excl {
                    cell.writer = true;
                } else {
                    cell.readers += 1;
                    if cell.readers >= 2 {
                        bump(c, "probe:several shared guards on one state", 1);
                    }
                }
                self.arena.push(Some((l, *t, *excl)));
                GRes::Granted
            }
            GOp::Read(k) => match self.arena.get(*k).copied().flatten() {
                Some((l, t, _)) => GRes::Val(self.levels[l][&t].val),
                None => GRes::Noop,
            },
            GOp::Write(k, v) => match self.arena.get(*k).copied().flatten() {
                Some((l, t, true)) => {
                    let cell = self.levels[l].get_mut(&t).unwrap();
                    let old = cell.val;
                    cell.val = *v;
                    GRes::Val(old)
                }
                _ => GRes::Noop,
            },
            GOp::Drop(k) => match self.arena.get_mut(*k).and_then(|g| g.take()) {
                Some((l, t, excl)) => {
                    let cell = self.levels[l].get_mut(&t).unwrap();
                    if excl {
                        cell.writer = false;
                    } else {
                        cell.readers -= 1;
                    }
                    GRes::Granted
                }
                None => GRes::Noop,
            },
            GOp::TryGet { up, t } => match self.resolve(*up, *t) {
                None => GRes::NotFound,
                Some(l) => {
                    let cell = &self.levels[l][t];
                    if cell.writer { GRes::ConflictImm } else { GRes::Val(cell.val) }
                }
            },
            GOp::Get { up, t } => match self.resolve(*up, *t) {
                None => GRes::Panicked,
                Some(l) => {
                    let cell = &self.levels[l][t];
                    if cell.writer { GRes::Panicked } else { GRes::Val(cell.val) }
                }
            },
            GOp::Present { up, t, which } => {
                let start = self.levels.len() - 1 - (*up as usize).min(self.levels.len() - 1);
                if self.arena.iter().flatten().any(|(_, gt, excl)| gt == t && *excl) {
                    bump(c, "probe:presence asked while an exclusive guard on the type is alive", 1);
                }
                GRes::Bool(if *which == 1 { self.levels[start].contains_key(t) } else { self.resolve(*up, *t).is_some() })
            }
            GOp::AcquireBestShared => GRes::Granted,
            GOp::BestValue => GRes::Val(BEST_MARK),
            GOp::Set { up, t, v } => match self.resolve(*up, *t) {
                None => GRes::Opt(None),
                Some(l) => {
                    let cell = self.levels[l].get_mut(t).unwrap();
                    if cell.writer || cell.readers > 0 {
                        GRes::Opt(None)
                    } else {
                        let old = cell.val;
                        cell.val = *v;
                        GRes::Opt(Some(old))
                    }
                }
            },
        }
    }
}

enum G<'a> {
    R(Ref<'a, u32>),
    W(RefMut<'a, u32>),
}

fn reg_at<'a>(st: &'a St, up: u8) -> &'a StateRegistry<'static> {
    let mut r: &StateRegistry<'static> = st;
    for _ in 0..up {
        match r.parent() {
            Some(p) => r = p,
            None => break,
        }
    }
    r
}

fn err_res(e: StateError) -> GRes {
    match e {
        StateError::NotFound(_) => GRes::NotFound,
        StateError::BorrowConflictImm(..) => GRes::ConflictImm,
        StateError::BorrowConflictMut(..) => GRes::ConflictMut,
        other => GRes::Unexpected(other.to_string()),
    }
}

fn build_state(layout: &[BTreeMap<u8, u32>]) -> St {
    let mut st: St = State::new();
    for (i, level) in layout.iter().enumerate() {
        if i > 0 {
            apply_real(&Op::Push, &mut st);
        }
        for (t, v) in level {
            apply_real(&Op::Insert(*t, *v), &mut st);
        }
    }
    st
}

fn gop_kind(op: &GOp) -> &'static str {
    match op {
        GOp::Acquire { excl: false, .. } => "acquire-shared",
        GOp::Acquire { excl: true, .. } => "acquire-exclusive",
        GOp::AcquirePanicking { excl: false, .. } => "borrow (panicking)",
        GOp::AcquirePanicking { excl: true, .. } => "borrow_mut (panicking)",
        GOp::Read(_) => "read-through-guard",
        GOp::Write(..) => "write-through-guard",
        GOp::Drop(_) => "drop-guard",
        GOp::TryGet { .. } => "try_get_value",
        GOp::Get { .. } => "get_value (panicking)",
        GOp::Set { .. } => "set_value",
        GOp::AcquireBestShared => "acquire-shared (best individual)",
        GOp::BestValue => "best_objective_value",
        GOp::Present { which: 0, .. } => "contains",
        GOp::Present { which: 1, .. } => "contains_at_top",
        GOp::Present { .. } => "find",
    }
}

/// objective value of the best-individual memory in guard histories
const BEST_MARK: u32 = 35;

pub struct Guards;

impl World for Guards {
    type Case = GuardCase;
    fn name(&self) -> &'static str {
        "guard-histories"
    }

    fn generate(&self, run_seed: u64, tier: Tier) -> GuardCase {
        let mut g = rng::stream(run_seed, "workload");
        let depth = 1 + g.below(4);
        let ntypes = 1 + g.below(4) as u8;
        let mut next = 0u32;
        let mut layout = Vec::new();
        for _ in 0..depth {
            let mut m = BTreeMap::new();
            for t in 0..ntypes {
                if g.chance(0.55) {
                    next += 1;
                    m.insert(t, next);
                }
            }
            layout.push(m);
        }
        let n = 3 + g.below(tier.pick(24, 40));
        let mut ops = Vec::new();
        let mut acquired = 0usize;
        for _ in 0..n {
            let up = if g.chance(0.7) { 0 } else { g.below(depth) as u8 };
            let t = g.below(ntypes as usize) as u8;
            let k = g.below(100);
            let op = match k {
                0..=34 => {
                    acquired += 1;
                    GOp::Acquire { up, t, excl: g.chance(0.4), api: g.below(2) as u8 }
                }
                35..=39 => {
                    acquired += 1;
                    GOp::AcquirePanicking { up, t, excl: g.chance(0.4), api: g.below(2) as u8 }
                }
                40..=54 => GOp::Read(g.below(acquired.max(1))),
                55..=66 => {
                    next += 1;
                    GOp::Write(g.below(acquired.max(1)), next)
                }
                67..=84 => GOp::Drop(g.below(acquired.max(1))),
                85..=90 => GOp::TryGet { up, t },
                91..=93 => GOp::Get { up, t },
                94..=96 => GOp::Present { up, t, which: g.below(3) as u8 },
                97 => if g.chance(0.5) { GOp::AcquireBestShared } else { GOp::BestValue },
                _ => {
                    next += 1;
                    GOp::Set { up, t, v: next }
                }
            };
            ops.push(op);
        }
        GuardCase { layout, ops }
    }

    fn execute(&self, case: &GuardCase) -> Outcome<GuardCase> {
        let mut out = Outcome::new();
        out.evaluations = 1;
        let mut st = build_state(&case.layout);
        // a best-individual memory in the innermost scope, only ever borrowed shared
        st.insert(mahf::state::common::BestIndividual::<EP>::new());
        **st.borrow_mut::<mahf::state::common::BestIndividual<EP>>() = Some(mahf::Individual::<EP>::new(Vec::new(), mahf::SingleObjective::try_from(BEST_MARK as f64).unwrap()));
        let st = st;
        let mut model = GModel {
            levels: case
                .layout
                .iter()
                .map(|m| m.iter().map(|(t, v)| (*t, Cell { val: *v, readers: 0, writer: false })).collect())
                .collect(),
            arena: Vec::new(),
        };
        let mut fp = Fp::new();
        let mut max_live = 0;
        let mut violation: Option<(Violation, usize)> = None;
        {
            let mut arena: Vec<Option<G<'_>>> = Vec::new();
            let mut best_guards = Vec::new();
            for (i, op) in case.ops.iter().enumerate() {
                let expected = model.apply(op, &mut out.counters);
                out.steps += 1;
                let real = match op {
                    GOp::Acquire { up, t, excl, api } => {
                        let reg = reg_at(&st, *up);
                        // a non-panicking accessor that panics is an answer like any other (and a wrong one)
                        let r: Result<Result<G<'_>, StateError>, String> = with_ty!(*t, T => guarded(|| match (*excl, *api) {
                            (false, 0) => reg.try_borrow::<T>().map(|r| G::R(Ref::map(r, |x| &x.0))),
                            (false, _) => reg.try_borrow_value::<T>().map(G::R),
                            (true, 0) => reg.try_borrow_mut::<T>().map(|r| G::W(RefMut::map(r, |x| &mut x.0))),
                            (true, _) => reg.try_borrow_value_mut::<T>().map(G::W),
                        }));
                        match r {
                            Ok(Ok(g)) => {
                                arena.push(Some(g));
                                GRes::Granted
                            }
                            Ok(Err(e)) => err_res(e),
                            Err(_) => GRes::Panicked,
                        }
                    }
                    GOp::AcquirePanicking { up, t, excl, api } => {
                        let reg = reg_at(&st, *up);
                        let r: Result<G<'_>, String> = with_ty!(*t, T => guarded(|| match (*excl, *api) {
                            (false, 0) => G::R(Ref::map(reg.borrow::<T>(), |x| &x.0)),
                            (false, _) => G::R(reg.borrow_value::<T>()),
                            (true, 0) => G::W(RefMut::map(reg.borrow_mut::<T>(), |x| &mut x.0)),
                            (true, _) => G::W(reg.borrow_value_mut::<T>()),
                        }));
                        match r {
                            Ok(g) => {
                                arena.push(Some(g));
                                GRes::Granted
                            }
                            Err(_) => GRes::Panicked,
                        }
                    }
                    GOp::Read(k) => match arena.get(*k).and_then(|g| g.as_ref()) {
                        Some(G::R(r)) => GRes::Val(**r),
                        Some(G::W(w)) => GRes::Val(**w),
                        None => GRes::Noop,
                    },
                    GOp::Write(k, v) => match arena.get_mut(*k).and_then(|g| g.as_mut()) {
                        Some(G::W(w)) => {
                            let old = **w;
                            **w = *v;
                            GRes::Val(old)
                        }
                        _ => GRes::Noop,
                    },
                    GOp::Drop(k) => match arena.get_mut(*k).and_then(|g| g.take()) {
                        Some(g) => {
                            drop(g);
                            GRes::Granted
                        }
                        None => GRes::Noop,
                    },
                    GOp::TryGet { up, t } => {
                        let reg = reg_at(&st, *up);
                        with_ty!(*t, T => match guarded(|| reg.try_get_value::<T>()) {
                            Ok(Ok(v)) => GRes::Val(v),
                            Ok(Err(e)) => err_res(e),
                            Err(_) => GRes::Panicked,
                        })
                    }
                    GOp::Get { up, t } => {
                        let reg = reg_at(&st, *up);
                        with_ty!(*t, T => match guarded(|| reg.get_value::<T>()) {
                            Ok(v) => GRes::Val(v),
                            Err(_) => GRes::Panicked,
                        })
                    }
                    GOp::Set { up, t, v } => {
                        let reg = reg_at(&st, *up);
                        with_ty!(*t, T => match guarded(|| reg.set_value::<T>(*v)) {
                            Ok(r) => GRes::Opt(r),
                            Err(_) => GRes::Panicked,
                        })
                    }
                    GOp::AcquireBestShared => match st.try_borrow::<mahf::state::common::BestIndividual<EP>>() {
                        Ok(g) => {
                            best_guards.push(g);
                            GRes::Granted
                        }
                        Err(e) => err_res(e),
                    },
                    GOp::BestValue => match guarded(|| (st.best_objective_value().map(|o| o.value()), st.best_individual().map(|i| i.objective().value()))) {
                        Ok((Some(a), Some(b))) if a == b => GRes::Val(a as u32),
                        Ok((None, _)) | Ok((_, None)) => GRes::Opt(None),
                        Ok(other) => GRes::Unexpected(format!("{other:?}")),
                        Err(_) => GRes::Panicked,
                    },
                    GOp::Present { up, t, which } => {
                        let reg = reg_at(&st, *up);
                        with_ty!(*t, T => match guarded(|| match *which {
                            0 => reg.contains::<T>(),
                            1 => reg.contains_at_top::<T>(),
                            _ => reg.find::<T>().is_ok(),
                        }) {
                            Ok(b) => GRes::Bool(b),
                            Err(_) => GRes::Panicked,
                        })
                    }
                };
                fp.str(gop_kind(op));
                fp.str(&format!("{expected:?}"));
                max_live = max_live.max(model.live());
                if expected != real {
                    violation = Some((
                        Violation::new(
                            format!("borrow-mismatch op={} expected={} real={}", gop_kind(op), res_kind(&expected), res_kind(&real)),
                            format!("op #{i} {op:?} with {} live guards: the reader/writer model says {expected:?}, the registry answered {real:?}", model.live()),
                        ),
                        i,
                    ));
                    break;
                }
            }
            // all guards dropped here
        }
        if violation.is_none() {
            // what was written through exclusive guards / set_value is what every later reader sees
            // (the best-individual memory is the harness' own, it is not part of the layout)
            let mut levels = snapshot(&st);
            for l in levels.iter_mut() {
                l.remove(&TAG_BEST);
            }
            let exp: Vec<BTreeMap<u8, u64>> = model
                .levels
                .iter()
                .map(|m| m.iter().map(|(t, c)| (*t, c.val as u64)).collect())
                .collect();
            if levels != exp {
                violation = Some((
                    Violation::new(
                        "values-after-release-mismatch",
                        format!("after dropping every guard: expected {exp:?}, registry holds {levels:?}"),
                    ),
                    case.ops.len() - 1,
                ));
            }
        }
        if max_live >= 2 {
            out.fingerprints.push(fp.0);
        }
        if let Some((v, i)) = violation {
            out.violation = Some((v, GuardCase { layout: case.layout.clone(), ops: case.ops[..=i.min(case.ops.len() - 1)].to_vec() }));
        }
        out
    }

    fn shrink(&self, case: &GuardCase) -> Vec<GuardCase> {
        let mut out = Vec::new();
        for i in 0..case.ops.len() {
            // removing an acquisition shifts slot numbers: renumber later slot references
            let mut ops = case.ops.clone();
            let removed = ops.remove(i);
            if matches!(removed, GOp::Acquire { .. } | GOp::AcquirePanicking { .. }) {
                continue; // keep slot numbering stable: acquisitions are only removed from the tail
            }
            out.push(GuardCase { layout: case.layout.clone(), ops });
        }
        if case.ops.len() > 1 {
            out.push(GuardCase { layout: case.layout.clone(), ops: case.ops[..case.ops.len() - 1].to_vec() });
        }
        out
    }
}

fn res_kind(r: &GRes) -> &'static str {
    match r {
        GRes::NotFound => "not-found",
        GRes::ConflictImm => "conflict-shared",
        GRes::ConflictMut => "conflict-exclusive",
        GRes::Granted => "granted",
        GRes::Panicked => "panic",
        GRes::Val(_) => "value",
        GRes::Opt(Some(_)) => "some",
        GRes::Opt(None) => "none",
        GRes::Bool(true) => "present",
        GRes::Bool(false) => "absent",
        GRes::Noop => "noop",
        GRes::Unexpected(_) => "unexpected",
    }
}

// ---------------------------------------------------------------------------------------------
// multi-borrow catalogue

#[derive(Clone, Debug, Serialize, Deserialize)]
pub struct MultiCase {
    /// scope levels, outermost first: type (0..8) -> value
    pub layout: Vec<BTreeMap<u8, u32>>,
    /// indices into the catalogue to run (empty = all)
    pub only: Vec<usize>,
    /// `Some(i)`: only request i of the marker-type requests (narrowed case)
    #[serde(default)]
    pub zst: Option<usize>,
}

/// Requests that name field-less marker states `Z0..Z2` (zero-sized, so two distinct states can
/// share an address) next to payload types: (tuple over 0..=2 markers / 10.. payload T0,T1,
/// real request). The decision depends on the types alone.
type ZReq = (&'static [u8], fn(&mut St) -> Result<(), StateError>, fn(&mut St));
fn zst_requests() -> Vec<ZReq> {
    macro_rules! z {
        ($tags:expr, $($T:ty),+) => {
{
                const TAGS: &[u8] = $tags;
                let r: ZReq = (TAGS, |st: &mut St| st.try_get_multiple_mut::<($($T),+)>().map(|_| ()), |st: &mut St| { let _ = st.get_multiple_mut::<($($T),+)>(); });
                r
            }
        };
    }
    vec![
        z!(&[0, 1], Z0, Z1),
        z!(&[1, 0], Z1, Z0),
        z!(&[0, 2], Z0, Z2),
        z!(&[0, 1, 2], Z0, Z1, Z2),
        z!(&[2, 1, 0], Z2, Z1, Z0),
        z!(&[10, 0, 1], T0, Z0, Z1),
        z!(&[0, 10, 2, 11], Z0, T0, Z2, T1),
        z!(&[10, 0], T0, Z0),
        z!(&[0, 0], Z0, Z0),
        z!(&[0, 1, 0], Z0, Z1, Z0),
        z!(&[1, 10, 1], Z1, T0, Z1),
    ]
}

pub struct Multi;

impl World for Multi {
    type Case = MultiCase;
    fn name(&self) -> &'static str {
        "multi-borrow"
    }

    fn generate(&self, run_seed: u64, _tier: Tier) -> MultiCase {
        let mut g = rng::stream(run_seed, "workload");
        let depth = 1 + g.below(3);
        let mut next = 0u32;
        let mut layout: Vec<BTreeMap<u8, u32>> = vec![BTreeMap::new(); depth];
        for t in 0..8u8 {
            if g.chance(0.1) {
                continue; // absent everywhere
            }
            let l = g.below(depth);
            next += 1;
            layout[l].insert(t, next);
            if g.chance(0.3) {
                // shadowed: also present in another scope
                let l2 = g.below(depth);
                next += 1;
                layout[l2].insert(t, next);
            }
        }
        MultiCase { layout, only: Vec::new(), zst: None }
    }

    fn execute(&self, case: &MultiCase) -> Outcome<MultiCase> {
        let mut out = Outcome::new();
        let mut st = build_state(&case.layout);
        let mut model = Model::from_scopes(case.layout.iter().map(|m| m.iter().map(|(t, v)| (*t, *v as u64)).collect()).collect());
        let cat = catalogue();
        // values written through the references are a function of (tuple index, position) only and
        // a narrowed case starts from the registry content just before its tuple, so that the
        // one-tuple replay of a violation is the same execution
        let mut next = 0u32;
        let _ = &mut next;
        let shape: Vec<Vec<u8>> = case.layout.iter().map(|m| m.keys().copied().collect()).collect();
        let idxs: Vec<usize> = if case.zst.is_some() { Vec::new() } else if case.only.is_empty() { (0..cat.len()).collect() } else { case.only.clone() };
        // marker types: Zk lives wherever the layout holds probe type k (k < 3)
        if case.only.is_empty() {
            let mut zs: St = State::new();
            for (i, level) in case.layout.iter().enumerate() {
                if i > 0 {
                    apply_real(&Op::Push, &mut zs);
                }
                for (t, v) in level {
                    apply_real(&Op::Insert(*t, *v), &mut zs);
                    match t {
                        0 => { zs.insert(Z0); }
                        1 => { zs.insert(Z1); }
                        2 => { zs.insert(Z2); }
                        _ => {}
                    }
                }
            }
            let present = |tag: u8| case.layout.iter().any(|m| m.contains_key(&(tag % 10)));
            for (zi, (tags, f, f_panicking)) in zst_requests().into_iter().enumerate() {
                if case.zst.map(|only| only != zi).unwrap_or(false) {
                    continue;
                }
                out.evaluations += 1;
                out.steps += 1;
                let mut sorted = tags.to_vec();
                sorted.sort();
                sorted.dedup();
                let repeats = sorted.len() != tags.len();
                let missing = tags.iter().any(|t| !present(*t));
                let got = guarded(|| f(&mut zs));
                let kind = match (&got, repeats, missing) {
                    (Ok(Err(StateError::MultipleBorrowConflict(_))), true, _) => "repeat",
                    (Ok(Err(StateError::NotFound(_))), false, true) => "missing",
                    (Ok(Ok(())), false, false) => {
                        bump(&mut out.counters, "probe:multi-borrow of several zero-sized states granted", 1);
                        "granted"
                    }
                    _ => {
                        let shown = match &got {
                            Ok(Ok(())) => "Ok".to_string(),
                            Ok(Err(e)) => format!("Err({e})"),
                            Err(p) => format!("panic ({p})"),
                        };
                        out.violation = Some((
                            Violation::new(
                                format!("multi-borrow-decision zero-sized arity={} repeats={repeats} missing={missing}", tags.len()),
                                format!("request #{zi} over marker (zero-sized) states {tags:?} (0..2 = markers, 10.. = payload types; repeats={repeats}, missing={missing}): got {shown}"),
                            ),
                            MultiCase { layout: case.layout.clone(), only: Vec::new(), zst: Some(zi) },
                        ));
                        break;
                    }
                };
                let panicked = guarded(|| f_panicking(&mut zs)).is_err();
                if panicked != (repeats || missing) {
                    out.violation = Some((
                        Violation::new(
                            format!("multi-borrow-panicking-decision zero-sized arity={} invalid={}", tags.len(), repeats || missing),
                            format!("get_multiple_mut request #{zi} over marker states {tags:?}: {} although the request is {}", if panicked { "panicked" } else { "returned references" }, if repeats || missing { "invalid" } else { "valid" }),
                        ),
                        MultiCase { layout: case.layout.clone(), only: Vec::new(), zst: Some(zi) },
                    ));
                    break;
                }
                let mut fp = Fp::new();
                fp.str(&format!("zst{tags:?}{kind}{shape:?}"));
                out.fingerprints.push(fp.0);
            }
            if out.violation.is_some() {
                return out;
            }
        }
        for ci in idxs {
            let (tuple, f, f_panicking) = cat[ci];
            out.evaluations += 1;
            out.steps += 1;
            let before: Vec<BTreeMap<u8, u32>> = model.scopes.iter().map(|m| m.iter().map(|(k, v)| (*k, *v as u32)).collect()).collect();
            let narrowed = || MultiCase { layout: before.clone(), only: vec![ci], zst: None };
            next = 1_000_000 + (ci as u32) * 64;
            let vals: Vec<u32> = tuple.iter().map(|_| { next += 1; next }).collect();
            let mut sorted = tuple.to_vec();
            sorted.sort();
            sorted.dedup();
            let repeats = sorted.len() != tuple.len();
            let missing = tuple.iter().any(|t| model.find(*t).is_none());
            // the panicking accessor first: it must panic exactly when the request is invalid
            {
                let mut sorted = tuple.to_vec();
                sorted.sort();
                sorted.dedup();
                let invalid = sorted.len() != tuple.len() || tuple.iter().any(|t| model.find(*t).is_none());
                let pvals: Vec<u32> = tuple.iter().map(|_| { next += 1; next }).collect();
                match (f_panicking(&mut st, &pvals), invalid) {
                    (None, true) => bump(&mut out.counters, "probe:panicking multi-borrow panicked on an invalid request", 1),
                    (Some(MultiOutcome::Refs { addrs, .. }), false) => {
                        let mut a = addrs.clone();
                        a.sort();
                        a.dedup();
                        if a.len() != addrs.len() {
                            out.violation = Some((Violation::new("multi-borrow-aliasing", format!("get_multiple_mut {tuple:?}: {} references to {} distinct objects", addrs.len(), a.len())), narrowed()));
                            break;
                        }
                        for (t, v) in tuple.iter().zip(&pvals) {
                            model.set(*t, *v as u64);
                        }
                    }
                    (got, inv) => {
                        out.violation = Some((
                            Violation::new(format!("multi-borrow-panicking-decision arity={} invalid={inv}", tuple.len()), format!("get_multiple_mut {tuple:?} over scopes holding types {:?}: {} although the request is {}", shape, if got.is_some() { "returned references" } else { "panicked" }, if inv { "invalid (repeated or missing type)" } else { "valid" })),
                            narrowed(),
                        ));
                        break;
                    }
                }
            }
            let real = f(&mut st, &vals);
            let kind = match (&real, repeats, missing) {
                (MultiOutcome::Repeat, true, _) => {
                    bump(&mut out.counters, "probe:multi-borrow refused for a repeated type", 1);
                    "repeat"
                }
                (MultiOutcome::Missing, false, true) => {
                    bump(&mut out.counters, "probe:multi-borrow refused for a missing type", 1);
                    "missing"
                }
                (MultiOutcome::Refs { addrs, old }, false, false) => {
                    let mut a = addrs.clone();
                    a.sort();
                    a.dedup();
                    let exp_old: Vec<u32> = tuple.iter().map(|t| model.get(*t).unwrap() as u32).collect();
                    if a.len() != addrs.len() {
                        out.violation = Some((Violation::new("multi-borrow-aliasing", format!("tuple {tuple:?}: {} references to {} distinct objects", addrs.len(), a.len())), narrowed()));
                        break;
                    }
                    if *old != exp_old {
                        out.violation = Some((Violation::new("multi-borrow-wrong-object", format!("tuple {tuple:?}: a reference does not point at the innermost value of its type (scopes holding types {:?})", shape)), narrowed()));
                        break;
                    }
                    for (t, v) in tuple.iter().zip(&vals) {
                        model.set(*t, *v as u64);
                    }
                    bump(&mut out.counters, "probe:multi-borrow granted", 1);
                    "granted"
                }
                (other, r, m) => {
                    out.violation = Some((
                        Violation::new(
                            format!("multi-borrow-decision arity={} repeats={r} missing={m}", tuple.len()),
                            format!("tuple {tuple:?} (repeats={r}, missing={m}) over scopes holding types {:?}: got {}", shape, match other {
                                MultiOutcome::Repeat => "Err(MultipleBorrowConflict)".to_string(),
                                MultiOutcome::Missing => "Err(NotFound)".to_string(),
                                MultiOutcome::Refs { addrs, .. } => {
                                    let mut a = addrs.clone();
                                    a.sort();
                                    a.dedup();
                                    format!("Ok with {} references to {} distinct objects", addrs.len(), a.len())
                                }
                                MultiOutcome::Other(e) => format!("Err({e})"),
                            }),
                        ),
                        narrowed(),
                    ));
                    break;
                }
            };
            // writes must be visible afterwards, nothing else may have changed
            let levels = snapshot(&st);
            if levels != model.scopes {
                out.violation = Some((
                    Violation::new("multi-borrow-writes-lost", format!("after tuple {tuple:?}: expected {:?}, registry holds {levels:?}", model.scopes)),
                    narrowed(),
                ));
                break;
            }
            let mut fp = Fp::new();
            fp.str(&format!("{tuple:?}{kind}{shape:?}"));
            out.fingerprints.push(fp.0);
        }
        out
    }
}

// ---------------------------------------------------------------------------------------------
// nested holding

pub struct Holding;

fn gen_holding(g: &mut Gen, next: &mut u32, ntypes: u8, depth: u32) -> Op {
    let t = g.below(ntypes as usize) as u8;
    let mut ops = Vec::new();
    let n = g.below(4);
    for _ in 0..n {
        let k = g.below(10);
        *next += 1;
        let tt = g.below(ntypes as usize) as u8;
        ops.push(match k {
            0..=2 if depth > 0 => gen_holding(g, next, ntypes, depth - 1),
            3 if depth > 0 => Op::WithInner { ops: vec![gen_holding(g, next, ntypes, depth - 1), Op::Insert(tt, *next)], fail: g.chance(0.5) },
            4 => Op::Insert(tt, *next),
            5 => Op::Contains(tt),
            6 => Op::Remove(tt),
            7 => Op::TryGet(tt),
            8 => Op::Set(tt, *next),
            _ => Op::ContainsTop(tt),
        });
    }
    *next += 1;
    Op::Holding { t, write: if g.chance(0.6) { Some(*next) } else { None }, ops, fail: g.chance(0.5) }
}

impl World for Holding {
    type Case = HistCase;
    fn name(&self) -> &'static str {
        "holding-histories"
    }
    fn generate(&self, run_seed: u64, _tier: Tier) -> HistCase {
        let mut g = rng::stream(run_seed, "workload");
        let ntypes = 1 + g.below(3) as u8;
        let mut next = 0u32;
        let mut ops = Vec::new();
        let scopes = g.below(4);
        for _ in 0..=scopes {
            for t in 0..ntypes {
                if g.chance(0.6) {
                    next += 1;
                    ops.push(Op::Insert(t, next));
                }
            }
            if g.chance(0.8) {
                ops.push(Op::Push);
            }
        }
        let n = 1 + g.below(4);
        for _ in 0..n {
            ops.push(gen_holding(&mut g, &mut next, ntypes, 2));
            if g.chance(0.3) {
                ops.push(Op::Pop);
            }
        }
        HistCase { ops }
    }
    fn execute(&self, case: &HistCase) -> Outcome<HistCase> {
        Histories.execute(case)
    }
    fn shrink(&self, case: &HistCase) -> Vec<HistCase> {
        Histories.shrink(case)
    }
}

pub fn run(tier: Tier, seed: u64, known: &KnownFindings) -> CheckReport {
    let mk = |batch: &'static str, runs: u64| BatchConfig { check_id: "C02", batch, base_seed: seed, tier, runs, threads: threads(), known, samples: 1 };
    let b1 = run_batch(&Guards, &mk("guard-histories", tier.pick(600_000, 8_000_000)));
    let b2 = run_batch(&Multi, &mk("multi-borrow", tier.pick(8_000, 100_000)));
    let b3 = run_batch(&Holding, &mk("nested-holding", tier.pick(250_000, 3_000_000)));
    CheckReport {
        property_id: "C02".into(),
        tier,
        seed,
        level: "exploration",
        rule: "guard-histories: one case = a scope layout (1..4 levels, the same type possibly in several) plus a seeded history of <= 40 acquire-shared / acquire-exclusive (all four non-panicking and four panicking accessors, issued at the top scope or at an ancestor), read, write, drop, try_get_value, get_value, set_value operations with guards kept alive in an arena; non-trivial = at least two guards alive at once; distinct = distinct (operation, model answer) sequences. multi-borrow: one case = a layout of 8 types over <= 3 scopes (types absent or shadowed) against which the whole catalogue of 175 tuples (all 2- and 3-tuples over 4 types; arity 4..8: distinct, reversed, every single repeat, a double repeat) is requested; distinct = (tuple, decision, layout shape). nested-holding: histories of holding nested to depth 3 with succeeding/failing closures, the held type living in an outer scope".into(),
        assumptions: vec![
            "oracle: reader-count/writer-flag per (scope level, type); a request resolves to the innermost scope, seen from where it is issued, that holds the type".into(),
            "no schedule or injected fault is involved except closure failures in holding; this is a reference-model history check (DESIGN.md section 5/C02)".into(),
        ],
        real_components: vec!["mahf::state::{State, StateRegistry}: try_borrow*, borrow*, get_value, set_value, try_get_multiple_mut, holding, with_inner_state".into()],
        stubbed_components: vec![],
        batches: vec![b1, b2, b3],
        extra: Default::default(),
    }
}
