//! `par_experiment` on the simulated worker pool under seeded schedules and I/O faults
//! (serves C08: schedule independence of the batch runner; C15: its files).

use crate::framework::*;
use crate::par::*;
use crate::rng::{self, Fp};
use crate::simio::*;
use crate::tw::observer::KV;
use crate::tw::problems::*;
use crate::tw::templates::*;
use mahf::components::control_flow::Loop;
use mahf::experiments::par_experiment;
use mahf::problems::Sequential;
use mahf::state::common::{Evaluations, Iterations, Populations};
use mahf::verif::{LoopEvent, Observer, ObserverSlot};
use mahf::{Component, Configuration, ExecResult, Random, State};
use serde::{Deserialize, Serialize};
use std::collections::{BTreeMap, BTreeSet};
use std::sync::{Arc, Mutex};

#[derive(Clone, Debug, Serialize, Deserialize)]
pub struct ExpCase {
    pub template: TCase,
    pub problems: Vec<RealSpec>,
    pub runs: u64,
    pub sched: SchedSpec,
    pub log: bool,
    pub io: IoPlan,
    #[serde(default)]
    pub stale_folder: bool,
    /// the setup function inserts a generator of its own
    #[serde(default)]
    pub user_rng: Option<u64>,
    /// every run evaluates with a clone of one `Parallel` evaluator (nested parallelism)
    #[serde(default)]
    pub shared_parallel: bool,
}

#[derive(Clone, Debug, PartialEq, Default)]
pub struct ExitDigest {
    pub populations: Vec<Vec<KV>>,
    pub best: Option<KV>,
    pub evaluations: Option<u32>,
    pub iterations: Option<u32>,
    pub next_word: Option<u64>,
    /// first evaluated individual (population stack, best) whose value is not F(solution)
    pub stale: Option<String>,
}

type DigestMap = Arc<Mutex<BTreeMap<(String, u64), ExitDigest>>>;

struct ExitObs {
    depth: u32,
    map: DigestMap,
}

impl Observer<RealP> for ExitObs {
    fn block_before(&mut self, _c: &dyn Component<RealP>, _p: &RealP, _s: &mut State<RealP>) -> ExecResult<()> {
        Ok(())
    }
    fn block_after(&mut self, _c: &dyn Component<RealP>, _p: &RealP, _s: &mut State<RealP>) {}
    fn loop_event(&mut self, _lp: &Loop<RealP>, event: LoopEvent, problem: &RealP, state: &mut State<RealP>) {
        match event {
            LoopEvent::Enter => self.depth += 1,
            LoopEvent::Exit => {
                self.depth = self.depth.saturating_sub(1);
                if self.depth == 0 {
                    let mut d = ExitDigest::default();
                    if let Ok(pops) = state.try_borrow::<Populations<RealP>>() {
                        for depth in (0..pops.len()).rev() {
                            d.populations.push(pops.peek(depth).iter().map(|i| (RealP::key(i.solution()), i.get_objective().map(|o| o.value().to_bits()))).collect());
                        }
                    }
                    d.best = state.best_individual().map(|i| (RealP::key(i.solution()), i.get_objective().map(|o| o.value().to_bits())));
                    if let Ok(pops) = state.try_borrow::<Populations<RealP>>() {
                        'audit: for depth in 0..pops.len() {
                            for i in pops.peek(depth).iter() {
                                if let Some(o) = i.get_objective() {
                                    let f = problem.reference(i.solution());
                                    if o.value().to_bits() != f.to_bits() {
                                        d.stale = Some(format!("an individual of the final population carries {} but F({}) = {f}", o.value(), RealP::show(i.solution())));
                                        break 'audit;
                                    }
                                }
                            }
                        }
                    }
                    if let Some(b) = state.best_individual() {
                        let f = problem.reference(b.solution());
                        if b.get_objective().map(|o| o.value().to_bits()) != Some(f.to_bits()) && d.stale.is_none() {
                            d.stale = Some(format!("the best individual carries {:?} but F({}) = {f}", b.get_objective().map(|o| o.value()), RealP::show(b.solution())));
                        }
                    }
                    d.evaluations = state.try_get_value::<Evaluations>().ok();
                    d.iterations = state.try_get_value::<Iterations>().ok();
                    let seed = state.try_borrow::<Random>().map(|r| r.config().seed).unwrap_or(u64::MAX);
                    self.map.lock().unwrap().insert((problem.spec.name.clone(), seed), d);
                }
            }
            _ => {}
        }
    }
}

fn setup_fn(map: DigestMap, log: bool, user_rng: Option<u64>, shared_parallel: bool) -> impl Fn(&mut State<RealP>) -> ExecResult<()> + Send + Sync {
    // one evaluator object created up front; every run gets a clone of it
    let prototype = mahf::problems::Parallel::<RealP>::new();
    move |state: &mut State<RealP>| {
        if shared_parallel {
            state.insert_evaluator(prototype.clone());
        } else {
            state.insert_evaluator(Sequential::<RealP>::new());
        }
        if let Some(seed) = user_rng {
            // the user supplies a generator of their own (another type, another seed)
            state.insert(Random::with_rng::<crate::rng::SimRng>(seed));
        }
        if log {
            state.configure_log(|config| {
                config.with_common(mahf::conditions::EveryN::iterations(2));
                // seed-dependent content, so that a log file is attributable to one seed
                config.with(mahf::conditions::EveryN::iterations(1), mahf::lens::common::BestObjectiveValueLens::entry());
                Ok(())
            })?;
        }
        state.insert(ObserverSlot::new(ExitObs { depth: 0, map: map.clone() }));
        Ok(())
    }
}

fn build(template: &TCase) -> Result<Configuration<RealP>, String> {
    let (cond, _, _) = termination::<RealP>(template.term);
    build_real::<RealP>(template, cond).map_err(|e| format!("{e:#}"))
}

pub struct Experiment {
    pub prop: &'static str,
}

fn shuttle_yield() {
    shuttle::thread::sleep(std::time::Duration::from_millis(0));
}

struct ExpOutcome {
    result: Result<(), String>,
    digests: BTreeMap<(String, u64), ExitDigest>,
    files: BTreeMap<String, Vec<u8>>,
    calls: usize,
    max_inflight: usize,
    fired: BTreeMap<&'static str, u64>,
}

impl World for Experiment {
    type Case = ExpCase;
    fn name(&self) -> &'static str {
        "par-experiment"
    }

    fn generate(&self, run_seed: u64, tier: Tier) -> ExpCase {
        let mut g = rng::stream(run_seed, "workload");
        let kind = *g.pick(&[Kind::RealGa, Kind::Es, Kind::De, Kind::Pso, Kind::RealRs, Kind::RealLs, Kind::RealSa, Kind::Bh, Kind::Iwo, Kind::Cro]);
        let opts = GenOpts { penalty: false, max_iters: tier.pick(4, 8), evaluations_term: false, log: false };
        let template = gen_case(&mut g, kind, &opts);
        let n_prob = 1 + g.below(3);
        let dim = match &template.problem {
            ProblemSpec::Real(r) => r.dim,
            _ => 2,
        };
        let problems = (0..n_prob)
            .map(|i| {
                // every problem has its own domain (the template's parameters stay valid for any
                // domain; only the first problem keeps the one they were drawn relative to)
                let mut p = gen_real(&mut g, false, 4);
                if i == 0 {
                    if let ProblemSpec::Real(r) = &template.problem {
                        p.lo = r.lo;
                        p.hi = r.hi;
                    }
                }
                p.dim = dim.max(1);
                // names with dots and dashes are legal file-name stems
                p.name = match i { 0 => format!("problem{i}"), 1 => format!("sphere.d{i}"), _ => format!("f-{i}.v2.shifted") };
                p
            })
            .collect();
        let mut sg = rng::stream(run_seed, "schedule");
        let sched = gen_sched(&mut sg);
        let mut fg = rng::stream(run_seed, "faults");
        let mut io = IoPlan::default();
        if self.prop == "C15" && fg.chance(0.6) {
            match fg.below(5) {
                0 => io.mkdir_fail_at = Some(0),
                1 => io.create_fail_at = Some(fg.below(4) as u32),
                2 => {
                    io.error_at = Some(fg.below(300) as u64);
                    io.only_file = Some(fg.below(5) as u32);
                }
                3 => {
                    io.flush_fail = true;
                    io.only_file = Some(fg.below(5) as u32);
                }
                _ => {
                    io.short_writes = Some(1 + fg.below(9) as u32);
                    io.interrupt_every = Some(2 + fg.below(5) as u32);
                }
            }
        }
        let stale_folder = fg.chance(0.3);
        ExpCase { template, problems, runs: 1 + g.below(6) as u64, sched, log: self.prop == "C15" || g.chance(0.7), io, stale_folder, user_rng: if g.chance(0.25) { Some(g.u64()) } else { None }, shared_parallel: g.chance(0.3) }
    }

    fn execute(&self, c: &ExpCase) -> Outcome<ExpCase> {
        let mut out = Outcome::new();
        out.evaluations = 1;
        // ---- reference: every (run, problem) alone, sequentially -------------------------
        let config = match build(&c.template) {
            Ok(cfg) => cfg,
            Err(e) => {
                eprintln!("harness error: template constructor rejected generated parameters: {e}");
                std::process::exit(2);
            }
        };
        let ref_map: DigestMap = Arc::new(Mutex::new(BTreeMap::new()));
        let mut ref_logs: BTreeMap<String, DecodedLog> = BTreeMap::new();
        let mut ref_calls = 0usize;
        for spec in &c.problems {
            for run in 0..c.runs {
                let problem = RealP::new(spec.clone());
                let setup = setup_fn(ref_map.clone(), c.log, c.user_rng, false);
                // a configuration object of its own: the reference must not depend on what an
                // earlier run left in a (supposedly immutable) component
                let config = match build(&c.template) {
                    Ok(cfg) => cfg,
                    Err(_) => return out,
                };
                let r = guarded(|| {
                    config.optimize_with(&problem, |state| {
                        state.insert(Random::new(run));
                        setup(state)
                    })
                });
                match r {
                    Ok(Ok(state)) => {
                        ref_calls += problem.instr.n_calls();
                        let disk = SimDisk::new(IoPlan::default());
                        let path = scratch_dir().join("ref.cbor");
                        let _ = with_disk(&disk, || state.log().to_cbor(&path));
                        let bytes = std::fs::read(&path).unwrap_or_default();
                        match decode_cbor(&bytes) {
                            Ok(l) => {
                                ref_logs.insert(format!("{}_{run}.cbor", spec.name), l);
                            }
                            Err(_) => return out, // reference itself unusable: C15's export batches report that
                        }
                    }
                    // the template fails on its own for this input: not this world's business (C16)
                    _ => return out,
                }
            }
        }
        let ref_ron = {
            let disk = SimDisk::new(IoPlan::default());
            let path = scratch_dir().join("ref.ron");
            let _ = with_disk(&disk, || config.to_ron(&path));
            std::fs::read(&path).unwrap_or_default()
        };
        let reference = ref_map.lock().unwrap().clone();

        // ---- the batch runner on the simulated pool ---------------------------------------
        let case = c.clone();
        let folder = scratch_dir().join("experiment");
        let _ = std::fs::remove_dir_all(&folder);
        if c.stale_folder {
            // the folder was used by an earlier experiment: its files are still there
            let _ = std::fs::create_dir_all(&folder);
            let _ = std::fs::write(folder.join("configuration.ron"), vec![b'#'; 5000]);
            if c.log {
                for spec in &c.problems {
                    let _ = std::fs::write(folder.join(format!("{}_0.cbor", spec.name)), vec![b'#'; 9000]);
                }
            }
            bump(&mut out.counters, "fault:data folder holding the files of an earlier experiment", 1);
        }
        let folder2 = folder.clone();
        let pr = run_in_shuttle(c.sched, move || {
            let config = build(&case.template).expect("built before");
            let problems: Vec<RealP> = case.problems.iter().map(|s| RealP::new(s.clone())).collect();
            for p in &problems {
                p.instr.yield_in_objective.store(true, std::sync::atomic::Ordering::Relaxed);
            }
            let map: DigestMap = Arc::new(Mutex::new(BTreeMap::new()));
            let mut disk = SimDisk::new(case.io.clone());
            disk.yield_point = Some(shuttle_yield);
            let setup = setup_fn(map.clone(), case.log, case.user_rng, case.shared_parallel);
            let result = with_disk(&disk, || guarded(|| par_experiment(&config, setup, &problems, case.runs, &folder2, case.log)));
            let result = match result {
                Ok(Ok(())) => Ok(()),
                Ok(Err(e)) => Err(format!("{e:#}")),
                Err(p) => Err(format!("panic: {p}")),
            };
            let st = disk.state.lock().unwrap();
            // what the folder holds in the end (accepted bytes are written through to real files,
            // so renames and removals done without the seam are part of the picture)
            let files = real_files(&folder2);
            let digests = map.lock().unwrap().clone();
            ExpOutcome {
                result,
                digests,
                files,
                calls: problems.iter().map(|p| p.instr.n_calls()).sum(),
                max_inflight: problems.iter().map(|p| p.instr.max_inflight.load(std::sync::atomic::Ordering::SeqCst)).max().unwrap_or(0),
                fired: st.fired.clone(),
            }
        });
        let _ = std::fs::remove_dir_all(&folder);
        out.steps += pr.scheduler_steps + ref_calls as u64;
        bump(&mut out.counters, "fault:schedule (non-default interleavings explored)", 1);
        bump(&mut out.counters, "scheduler steps", pr.scheduler_steps);
        bump(&mut out.counters, "context switches", pr.context_switches);
        if pr.stalls > 0 {
            bump(&mut out.counters, "fault:worker-stalled (descheduled for 20..400 scheduling points)", pr.stalls);
        }
        bump(&mut out.counters, &format!("experiments with {} workers", c.sched.workers), 1);
        let exp = match pr.result {
            Ok(e) => e,
            Err(p) => {
                // under C05 / C06 only a panic raised by the evaluation code itself is theirs
                let own = !matches!(self.prop, "C05" | "C06") || p.contains("src/problems/");
                if own {
                    out.violation = Some((Violation::new("par-experiment-panicked", format!("{} under {:?}: {p}", c.template.kind.name(), c.sched)), c.clone()));
                }
                return out;
            }
        };
        for (k, v) in &exp.fired {
            bump(&mut out.counters, &format!("fault:{k}"), *v);
        }
        bump(&mut out.counters, "max:objective calls in flight at once", exp.max_inflight as u64);
        if exp.max_inflight >= 2 {
            bump(&mut out.counters, "probe:experiments with overlapping runs (>= 2 objective calls in flight)", 1);
        }
        let mut fp = Fp::new();
        fp.str(&format!("{:?}{:?}", c.template.kind, c.io));
        fp.u64(pr.schedule_hash);
        if exp.calls > 0 {
            out.fingerprints.push(fp.0);
        }
        let failing_fired = exp.fired.iter().any(|(k, v)| *v > 0 && matches!(*k, "io-create-fail" | "io-mkdir-fail" | "io-error-at" | "io-flush-fail"));
        let sched = format!("{:?} (schedule #{:x})", c.sched, pr.schedule_hash);
        let tname = c.template.kind.name();
        let v: Option<Violation> = (|| {
            if failing_fired {
                if exp.result.is_ok() {
                    return Some(Violation::new(
                        format!("experiment-acknowledged-despite-io-fault fault={}", exp.fired.keys().next().copied().unwrap_or("?")),
                        format!("par_experiment({tname}) returned Ok although an injected I/O fault fired ({:?}) under {sched}", exp.fired),
                    ));
                }
                if exp.fired.get("io-mkdir-fail").copied().unwrap_or(0) > 0 && exp.calls > 0 {
                    return Some(Violation::new("experiment-ran-without-data-dir", format!("the data directory could not be created, yet {} objective calls were made", exp.calls)));
                }
                if c.io.create_fail_at == Some(0) && exp.calls > 0 {
                    return Some(Violation::new("experiment-ran-without-configuration-file", format!("configuration.ron could not be created, yet {} objective calls were made", exp.calls)));
                }
                return None;
            }
            if exp.result.is_err() && matches!(self.prop, "C05" | "C06") {
                return None; // a failing experiment is C08's / C15's finding
            }
            if let Err(e) = &exp.result {
                return Some(Violation::new("experiment-failed", format!("par_experiment({tname}) failed without a failing fault under {sched}: {e}")));
            }
            if self.prop == "C05" {
                // this property's own oracle: what the runs hold at their end belongs to their solutions
                return exp.digests.iter().find_map(|(k, d)| d.stale.as_ref().map(|m| Violation::new("experiment stale-objective", format!("{tname} under {sched}, run {k:?}: {m}"))));
            }
            if self.prop == "C06" {
                // reported evaluations of all runs == objective calls actually made
                if c.user_rng.is_none() {
                    let reported: u64 = exp.digests.values().map(|d| d.evaluations.unwrap_or(0) as u64).sum();
                    if exp.digests.len() == reference.len() && reported != exp.calls as u64 {
                        return Some(Violation::new("experiment evaluations-vs-calls", format!("{tname} under {sched}: the runs report {reported} evaluations in total, the objective functions were called {} times", exp.calls)));
                    }
                }
                return None;
            }
            // per-(run, problem) digests
            if exp.digests.len() != reference.len() {
                return Some(Violation::new(
                    "experiment-run-set",
                    format!("{tname} under {sched}: {} (problem, seed) runs finished, expected {} ({:?} vs {:?})", exp.digests.len(), reference.len(), exp.digests.keys().collect::<Vec<_>>(), reference.keys().collect::<Vec<_>>()),
                ));
            }
            for (k, d) in &reference {
                match exp.digests.get(k) {
                    None => return Some(Violation::new("experiment-run-set", format!("{tname} under {sched}: run {k:?} missing; got {:?}", exp.digests.keys().collect::<Vec<_>>()))),
                    Some(x) if x != d => {
                        let what = if x.populations != d.populations { "population-stack" } else if x.best != d.best { "best-individual" } else if x.evaluations != d.evaluations { "evaluations" } else if x.iterations != d.iterations { "iterations" } else { "random-stream" };
                        return Some(Violation::new(format!("experiment-run-differs in={what}"), format!("{tname} under {sched}: run {k:?} differs in its {what} from the same (problem, seed) executed alone")));
                    }
                    _ => {}
                }
            }
            if self.prop == "C15" || true {
                // file set
                let mut expected: BTreeSet<String> = BTreeSet::new();
                expected.insert("configuration.ron".into());
                if c.log {
                    expected.extend(ref_logs.keys().cloned());
                }
                let got: BTreeSet<String> = exp.files.keys().cloned().collect();
                if got != expected {
                    return Some(Violation::new("experiment-file-set", format!("{tname} under {sched}: files written {got:?}, expected {expected:?}")));
                }
                if exp.files.get("configuration.ron") != Some(&ref_ron) {
                    return Some(Violation::new("experiment-configuration-file", format!("{tname}: configuration.ron differs from to_ron of the configuration")));
                }
                if c.log {
                    for (name, l) in &ref_logs {
                        match decode_cbor(&exp.files[name]) {
                            Ok(d) if logs_equal(&d, l) => {}
                            Ok(_) => return Some(Violation::new("experiment-log-file-content", format!("{tname} under {sched}: {name} does not hold the log of that (problem, seed) executed alone"))),
                            Err(e) => return Some(Violation::new("experiment-log-file-undecodable", format!("{tname} under {sched}: {name}: {e}"))),
                        }
                    }
                    bump(&mut out.counters, "log files compared", ref_logs.len() as u64);
                }
            }
            None
        })();
        if let Some(v) = v {
            out.violation = Some((v, c.clone()));
        }
        out
    }

    fn shrink(&self, c: &ExpCase) -> Vec<ExpCase> {
        let mut v = Vec::new();
        if c.runs > 1 {
            v.push(ExpCase { runs: c.runs - 1, ..c.clone() });
        }
        if c.problems.len() > 1 {
            v.push(ExpCase { problems: c.problems[..c.problems.len() - 1].to_vec(), ..c.clone() });
        }
        if c.sched.workers > 2 {
            v.push(ExpCase { sched: SchedSpec { workers: 2, ..c.sched }, ..c.clone() });
        }
        for t in shrink_case(&c.template) {
            if matches!(t.problem, ProblemSpec::Real(_)) && t.problem == c.template.problem {
                v.push(ExpCase { template: t, ..c.clone() });
            }
        }
        v
    }
}
