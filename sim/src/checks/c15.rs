//! C15 — experiment records: log entries, log export (also under injected disk faults),
//! configuration export.

use crate::checks::c03;
use crate::engine::gen::{GenCfg, ProgGen};
use crate::engine::ops::*;
use crate::engine::program::*;
use crate::engine::types::*;
use crate::framework::*;
use crate::rng::{self, Fp};
use crate::simio::*;
use mahf::logging::Log;
use serde::{Deserialize, Serialize};
use std::collections::BTreeMap;

fn gen_log_program(run_seed: u64, tier: Tier) -> Program {
    let mut g = rng::stream(run_seed, "workload");
    let cfg = GenCfg {
        max_nodes: tier.pick(10, 20),
        max_depth: 3,
        max_ops: 3,
        closure_depth: 0,
        panicking_ops: false,
        ntypes: 1 + g.below(3) as u8,
        real_conds: 0.3,
        loggers: true,
        requires: false,
        small_values: true,
    };
    let mut program = ProgGen::new(&mut g, &cfg).program();
    for t in 0..cfg.ntypes {
        if g.chance(0.7) {
            program.pre_ops.push(Op::Insert(t, g.below(6) as u32));
        }
    }
    program
}

fn expected_decoded(log: &ExpLog) -> DecodedLog {
    log.iter()
        .map(|step| {
            step.iter()
                .map(|(k, v)| (k.clone(), match v { Some(x) => Norm::U(*x), None => Norm::Null }))
                .collect()
        })
        .collect()
}

/// Exports `log` through `to_json` and `to_cbor` into real files and decodes them.
fn export_both(log: &Log, tag: &str) -> Result<(DecodedLog, DecodedLog), String> {
    let dir = scratch_dir();
    let pj = dir.join(format!("{tag}.json"));
    let pc = dir.join(format!("{tag}.cbor"));
    // the files already exist and are longer than any export: an export must replace them
    let junk = vec![b'#'; 6_000];
    let _ = std::fs::write(&pj, &junk);
    let _ = std::fs::write(&pc, &junk);
    log.to_json(&pj).map_err(|e| format!("to_json failed without any fault: {e:#}"))?;
    log.to_cbor(&pc).map_err(|e| format!("to_cbor failed without any fault: {e:#}"))?;
    let bj = std::fs::read(&pj).map_err(|e| e.to_string())?;
    let bc = std::fs::read(&pc).map_err(|e| e.to_string())?;
    let _ = std::fs::remove_file(&pj);
    let _ = std::fs::remove_file(&pc);
    Ok((decode_json(&bj)?, decode_cbor(&bc)?))
}

// ---------------------------------------------------------------------------------------------
// batch: log content

pub struct LogContent;

impl World for LogContent {
    type Case = c03::Case;
    fn name(&self) -> &'static str {
        "log-content"
    }
    fn generate(&self, run_seed: u64, tier: Tier) -> c03::Case {
        let program = gen_log_program(run_seed, tier);
        let mut fg = rng::stream(run_seed, "faults");
        let plan = if fg.chance(0.25) {
            let mut it = Interp::new(&program, None, false);
            if program.log_rules.is_some() {
                it.model.top().insert(TAG_LOGCFG, 1);
            }
            it.run(&program);
            let enters: Vec<Fault> = it
                .trace
                .iter()
                .filter_map(|e| match e {
                    Ev::Enter { id, phase, occ } => Some(Fault { id: *id, phase: *phase, occ: *occ }),
                    _ => None,
                })
                .collect();
            if enters.is_empty() { None } else { Some(*fg.pick(&enters)) }
        } else {
            None
        };
        c03::Case { program, plans: c03::Plans::One(plan), clone_config: false }
    }

    fn execute(&self, case: &c03::Case) -> Outcome<c03::Case> {
        let mut out = Outcome::new();
        out.evaluations = 1;
        let p = &case.program;
        let plan = match &case.plans {
            c03::Plans::One(f) => *f,
            c03::Plans::All => None,
        };
        if plan.is_some() {
            bump(&mut out.counters, "fault:leaf-or-trigger-fail", 1);
        }
        let mut it = Interp::new(p, plan, true);
        if p.log_rules.is_some() {
            it.model.top().insert(TAG_LOGCFG, 1);
        }
        let exp_end = it.run(p);
        if exp_end == RunEnd::Budget {
            return out;
        }
        out.steps += it.steps;
        for (k, v) in &it.probes {
            bump(&mut out.counters, &format!("probe:{k}"), *v);
        }
        let real = run_real(p, plan, true, false);
        let mut fp = Fp::new();
        fp.str(&format!("{:?}", it.log));
        fp.str(c03::end_kind(&exp_end));
        if !it.log.is_empty() {
            out.fingerprints.push(fp.0);
            bump(&mut out.counters, "log steps expected", it.log.len() as u64);
        }
        let viol = (|| {
            if let Some(d) = trace_diff(&it.trace, &real.trace) {
                return Some(Violation::new(format!("logger-{}", diff_class(&it.trace, &real.trace)), format!("fault={plan:?}: {d}")));
            }
            if exp_end != real.end {
                return Some(Violation::new(
                    format!("logger-run-result expected={} real={}", c03::end_kind(&exp_end), c03::end_kind(&real.end)),
                    format!("fault={plan:?}: expected {exp_end:?}, real {:?} {:?}", real.end, real.panic),
                ));
            }
            // (after a panic the state is normally dropped: nothing is claimed about it)
            if p.log_rules.is_some() && !real.logcfg_present && exp_end != RunEnd::Panicked {
                return Some(Violation::new("log-config-lost", format!("fault={plan:?}: the LogConfig is gone after the run")));
            }
            let st = real.state.as_ref().unwrap();
            let log = st.log();
            let expected = expected_decoded(&it.log);
            match export_both(&log, "content") {
                Err(e) => Some(Violation::new("log-export-undecodable", format!("fault={plan:?}: {e}"))),
                Ok((j, c)) => {
                    if !logs_equal(&j, &expected) {
                        Some(Violation::new(
                            format!("log-content-mismatch via=json steps_expected={} steps_real={}", cmp_len(expected.len(), j.len()), ""),
                            format!("fault={plan:?}: expected log {expected:?}, JSON export decodes to {j:?}"),
                        ))
                    } else if !logs_equal(&c, &expected) {
                        Some(Violation::new(
                            "log-content-mismatch via=cbor".to_string(),
                            format!("fault={plan:?}: expected log {expected:?}, CBOR export decodes to {c:?}"),
                        ))
                    } else {
                        None
                    }
                }
            }
        })();
        if let Some(mut v) = viol {
            // keep classes stable under shrinking: no counts in the class
            if v.class.starts_with("log-content-mismatch via=json") {
                v.class = "log-content-mismatch via=json".into();
            }
            out.violation = Some((v, case.clone()));
        }
        out
    }

    fn shrink(&self, case: &c03::Case) -> Vec<c03::Case> {
        c03::C03World { real_conds: 0.0, loggers: true }.shrink(case)
    }
}

fn cmp_len(a: usize, b: usize) -> &'static str {
    if a == b { "same" } else if a < b { "more" } else { "fewer" }
}

// ---------------------------------------------------------------------------------------------
// batch: export under injected disk faults

#[derive(Clone, Debug, Serialize, Deserialize)]
pub struct ExportCase {
    pub program: Program,
    /// "json" | "cbor" | "ron"
    pub format: String,
    pub plan: IoPlan,
    /// enumerate `error_at` over every byte offset of the fault-free output (plan.error_at unused)
    pub all_offsets: bool,
}

pub struct ExportFaults;

fn export_once(format: &str, program: &Program, st: &St, disk: &SimDisk) -> (Result<(), String>, Vec<u8>) {
    // the seam still creates the (empty) real file, so the path has to be creatable
    let path = scratch_dir().join(format!("simdisk-out.{format}"));
    let sh = Shared::new(None, false);
    let _ = std::fs::remove_file(&path);
    let r = with_disk(disk, || match format {
        "json" => st.log().to_json(&path).map_err(|e| format!("{e:#}")),
        "cbor" => st.log().to_cbor(&path).map_err(|e| format!("{e:#}")),
        _ => build_config(program, &sh).to_ron(&path).map_err(|e| format!("{e:#}")),
    });
    // what the path holds on the (real) disk behind the simulated one: accepted bytes are
    // written through, and an export that writes elsewhere first and renames is read correctly
    let bytes = std::fs::read(&path).unwrap_or_default();
    (r, bytes)
}

impl World for ExportFaults {
    type Case = ExportCase;
    fn name(&self) -> &'static str {
        "export-faults"
    }
    fn generate(&self, run_seed: u64, tier: Tier) -> ExportCase {
        let mut program = gen_log_program(run_seed, tier);
        let mut g = rng::stream(run_seed, "faults");
        if g.chance(0.25) {
            // a log well beyond the 8 KiB buffer of the export's BufWriter: a loop of several
            // hundred logged passes with always-firing rules
            let n = 300 + g.below(400);
            program = Program {
                root: vec![Node::While { id: 1, cond: Cond::Scripted { id: 2, outcomes: vec![true; n] }, body: vec![Node::Leaf { id: 3, init_ops: vec![], req: None, ops: vec![Op::Insert(0, 7)] }, Node::Logger { id: 4 }] }],
                log_rules: Some(vec![
                    Rule { trigger: Cond::Scripted { id: 5, outcomes: vec![true; n] }, t: 0, kind: ExtractorKind::ValueOf },
                    Rule { trigger: Cond::Scripted { id: 6, outcomes: vec![true; n] }, t: 1, kind: ExtractorKind::ValueOf },
                    Rule { trigger: Cond::EveryN { id: 7, t: TAG_IT, n: 2 }, t: TAG_IT, kind: ExtractorKind::IdLens },
                ]),
                pre_ops: vec![Op::Insert(1, 3)],
                resume: false,
                optimum: 0.0,
            };
        }
        let format = g.pick(&["json", "cbor", "ron"]).to_string();
        let mut plan = IoPlan::default();
        let mut all_offsets = false;
        match g.below(7) {
            0 => plan.create_fail_at = Some(0),
            1 => plan.flush_fail = true,
            2 | 3 => all_offsets = true,
            4 => plan.short_writes = Some(1 + g.below(7) as u32),
            5 => plan.interrupt_every = Some(2 + g.below(4) as u32),
            _ => {
                plan.short_writes = Some(1 + g.below(16) as u32);
                plan.interrupt_every = Some(2 + g.below(6) as u32);
                if g.chance(0.5) {
                    plan.error_at = Some(g.below(400) as u64);
                }
            }
        }
        ExportCase { program, format, plan, all_offsets }
    }

    fn execute(&self, case: &ExportCase) -> Outcome<ExportCase> {
        let mut out = Outcome::new();
        let p = &case.program;
        // produce the state whose log is exported (fault-free run)
        let mut it = Interp::new(p, None, false);
        if p.log_rules.is_some() {
            it.model.top().insert(TAG_LOGCFG, 1);
        }
        if it.run(p) == RunEnd::Budget {
            return out;
        }
        let real = run_real(p, None, false, false);
        let st = real.state.as_ref().unwrap();
        let expected = expected_decoded(&it.log);
        // reference bytes through the fault-free simulated disk
        let clean = SimDisk::new(IoPlan::default());
        let (r0, ref_bytes) = export_once(&case.format, p, st, &clean);
        out.evaluations += 1;
        if let Err(e) = r0 {
            out.violation = Some((Violation::new(format!("export-failed-without-fault format={}", case.format), e), ExportCase { plan: IoPlan::default(), all_offsets: false, ..case.clone() }));
            return out;
        }
        let decodes = |bytes: &[u8]| -> Result<(), String> {
            match case.format.as_str() {
                "json" => decode_json(bytes).and_then(|d| if logs_equal(&d, &expected) { Ok(()) } else { Err(format!("decodes to {d:?}, expected {expected:?}")) }),
                "cbor" => decode_cbor(bytes).and_then(|d| if logs_equal(&d, &expected) { Ok(()) } else { Err(format!("decodes to {d:?}, expected {expected:?}")) }),
                _ => if bytes == ref_bytes.as_slice() { Ok(()) } else { Err(format!("{} bytes on disk differ from the {} bytes of a fault-free export", bytes.len(), ref_bytes.len())) },
            }
        };
        if let Err(e) = decodes(&ref_bytes) {
            out.violation = Some((Violation::new(format!("export-wrong-without-fault format={}", case.format), e), ExportCase { plan: IoPlan::default(), all_offsets: false, ..case.clone() }));
            return out;
        }
        let plans: Vec<IoPlan> = if case.all_offsets {
            // every byte offset; for outputs beyond 4 KiB every 97th offset plus the last 200
            let n = ref_bytes.len() as u64;
            (0..n).filter(|o| n <= 4096 || o % 97 == 0 || *o + 200 >= n).map(|o| IoPlan { error_at: Some(o), ..IoPlan::default() }).collect()
        } else {
            vec![case.plan.clone()]
        };
        for plan in plans {
            out.evaluations += 1;
            out.steps += 1;
            let disk = SimDisk::new(plan.clone());
            let (r, bytes) = export_once(&case.format, p, st, &disk);
            for (k, v) in &disk.state.lock().unwrap().fired {
                bump(&mut out.counters, &format!("fault:{k}"), *v);
            }
            let mut fp = Fp::new();
            fp.str(&case.format);
            fp.str(&format!("{plan:?}"));
            fp.u64(ref_bytes.len() as u64);
            fp.u64(r.is_ok() as u64);
            out.fingerprints.push(fp.0);
            let fault_kind = if plan.create_fail_at.is_some() {
                "io-create-fail"
            } else if plan.flush_fail {
                "io-flush-fail"
            } else if plan.error_at.is_some() {
                "io-error-at"
            } else {
                "transient-only"
            };
            let v = match &r {
                Ok(()) => match decodes(&bytes) {
                    Ok(()) => None,
                    Err(e) => Some(Violation::new(
                        format!("export-acknowledged-but-wrong format={} fault={fault_kind}", case.format),
                        format!("{} export returned Ok under {plan:?} but the {} bytes on the simulated disk are not the exported content: {e}", case.format, bytes.len()),
                    )),
                },
                Err(e) => {
                    if !plan.is_failing() {
                        Some(Violation::new(
                            format!("export-failed-on-transient-io format={}", case.format),
                            format!("{} export failed under short writes / EINTR only ({plan:?}): {e}", case.format),
                        ))
                    } else {
                        bump(&mut out.counters, "probe:export reported the injected failure", 1);
                        None
                    }
                }
            };
            if let Some(v) = v {
                out.violation = Some((v, ExportCase { plan, all_offsets: false, ..case.clone() }));
                break;
            }
        }
        out
    }

    fn shrink(&self, case: &ExportCase) -> Vec<ExportCase> {
        let mut v: Vec<ExportCase> = shrink_nodes(&case.program.root)
            .into_iter()
            .map(|root| ExportCase { program: Program { root, ..case.program.clone() }, ..case.clone() })
            .collect();
        if let Some(rules) = &case.program.log_rules {
            for i in 0..rules.len() {
                let mut r = rules.clone();
                r.remove(i);
                v.push(ExportCase { program: Program { log_rules: Some(r), ..case.program.clone() }, ..case.clone() });
            }
        }
        v
    }
}

// ---------------------------------------------------------------------------------------------
// batch: /dev/full (the real kernel, no hook)

#[derive(Clone, Debug, Serialize, Deserialize)]
pub struct DevFullCase {
    pub program: Program,
    pub format: String,
}

pub struct DevFull;

impl World for DevFull {
    type Case = DevFullCase;
    fn name(&self) -> &'static str {
        "dev-full"
    }
    fn generate(&self, run_seed: u64, tier: Tier) -> DevFullCase {
        let mut g = rng::stream(run_seed, "faults");
        DevFullCase { program: gen_log_program(run_seed, tier), format: g.pick(&["json", "cbor", "ron"]).to_string() }
    }
    fn execute(&self, case: &DevFullCase) -> Outcome<DevFullCase> {
        let mut out = Outcome::new();
        out.evaluations = 1;
        out.steps = 1;
        // the cases of this batch share one device node: one at a time
        static DEV_FULL: std::sync::Mutex<()> = std::sync::Mutex::new(());
        let _one_at_a_time = DEV_FULL.lock().unwrap_or_else(|e| e.into_inner());
        fn is_full_device() -> bool {
            use std::os::unix::fs::{FileTypeExt, MetadataExt};
            std::fs::metadata("/dev/full").map(|m| m.file_type().is_char_device() && m.rdev() == 0x107).unwrap_or(false)
        }
        if !is_full_device() {
            bump(&mut out.counters, "probe:/dev/full is not the kernel's full device here - case skipped", 1);
            return out;
        }
        let p = &case.program;
        let real = run_real(p, None, false, false);
        if real.end != RunEnd::Ok {
            return out;
        }
        let st = real.state.as_ref().unwrap();
        let sh = Shared::new(None, false);
        let r = match case.format.as_str() {
            "json" => st.log().to_json("/dev/full").map_err(|e| format!("{e:#}")),
            "cbor" => st.log().to_cbor("/dev/full").map_err(|e| format!("{e:#}")),
            _ => build_config(p, &sh).to_ron("/dev/full").map_err(|e| format!("{e:#}")),
        };
        bump(&mut out.counters, "fault:enospc-from-the-real-kernel", 1);
        let mut fp = Fp::new();
        fp.str(&case.format);
        fp.str(&format!("{:?}", p.root.len()));
        fp.u64(real.trace.len() as u64);
        out.fingerprints.push(fp.0);
        if !is_full_device() {
            // the export did not write into the target, it put something else in its place
            // (write-then-rename): ENOSPC cannot be observed this way and nothing is claimed -
            // but the device node has to be there for the next case (and for everybody else)
            let _ = std::fs::remove_file("/dev/full");
            let _ = std::process::Command::new("mknod").args(["-m", "666", "/dev/full", "c", "1", "7"]).status();
            bump(&mut out.counters, "probe:export replaced /dev/full instead of writing into it (no claim; device node restored)", 1);
            return out;
        }
        if r.is_ok() {
            out.violation = Some((
                Violation::new(format!("export-acknowledged-on-full-device format={}", case.format), format!("{} export to /dev/full returned Ok(())", case.format)),
                case.clone(),
            ));
        }
        out
    }
}

// ---------------------------------------------------------------------------------------------
// batch: configuration export of generated trees

#[derive(Clone, Debug, Serialize, Deserialize)]
pub struct RonCase {
    pub program: Program,
}

pub struct ConfigExport;

/// What a serialisation must show for `nodes`, using only names the harness owns (so that
/// renaming a mahf struct or field is not reported): the pre-order sequence of probe leaves and
/// scripted conditions with their tree depth, and the parameter values of the real conditions.
fn expected_tokens(nodes: &[Node], depth: usize, out: &mut Vec<(String, usize)>, params: &mut Vec<f64>) {
    fn cond(c: &Cond, depth: usize, out: &mut Vec<(String, usize)>, params: &mut Vec<f64>) {
        match c {
            Cond::Scripted { id, .. } => out.push((format!("Scripted:{id}"), depth)),
            Cond::LessThan { n, .. } | Cond::EveryN { n, .. } => params.push(*n as f64),
            Cond::LessThanF { n, .. } => params.push(*n),
            Cond::ChangeDelta { threshold, .. } => params.push(*threshold as f64),
            Cond::ChangeEq { .. } => {}
            Cond::Optimum { eps, .. } => params.push(*eps),
            Cond::And { ops, .. } | Cond::Or { ops, .. } => ops.iter().for_each(|o| cond(o, depth + 1, out, params)),
            Cond::Not { inner, .. } => cond(inner, depth + 1, out, params),
        }
    }
    for n in nodes {
        match n {
            Node::Leaf { id, .. } => out.push((format!("ProbeLeaf:{id}"), depth)),
            Node::Logger { .. } => {}
            Node::While { cond: c, body, .. } => {
                cond(c, depth + 1, out, params);
                expected_tokens(body, depth + 1, out, params);
            }
            Node::If { cond: c, then, els, .. } => {
                cond(c, depth + 1, out, params);
                expected_tokens(then, depth + 1, out, params);
                if let Some(e) = els {
                    expected_tokens(e, depth + 1, out, params);
                }
            }
            Node::Scope { body, .. } => expected_tokens(body, depth + 1, out, params),
        }
    }
}

/// Harness-owned tokens of a RON text in order of appearance, each with its bracket depth.
fn ron_tokens(text: &str) -> Vec<(String, usize)> {
    let mut out = Vec::new();
    let mut depth = 0usize;
    let mut in_str = false;
    let mut cur = String::new();
    let mut pending: Option<(&'static str, usize)> = None;
    let mut want_id = false;
    let mut flush = |cur: &mut String, depth: usize, out: &mut Vec<(String, usize)>, pending: &mut Option<(&'static str, usize)>, want_id: &mut bool| {
        if cur.is_empty() {
            return;
        }
        let w = std::mem::take(cur);
        if w == "ProbeLeaf" {
            *pending = Some(("ProbeLeaf", depth));
        } else if w == "Scripted" {
            *pending = Some(("Scripted", depth));
        } else if w == "id" && pending.is_some() {
            *want_id = true;
        } else if *want_id {
            if let Some((name, d)) = pending.take() {
                out.push((format!("{name}:{w}"), d));
            }
            *want_id = false;
        }
    };
    for ch in text.chars() {
        if in_str {
            if ch == '"' {
                in_str = false;
            }
            continue;
        }
        match ch {
            '"' => {
                flush(&mut cur, depth, &mut out, &mut pending, &mut want_id);
                in_str = true;
            }
            '(' | '[' | '{' => {
                flush(&mut cur, depth, &mut out, &mut pending, &mut want_id);
                depth += 1;
            }
            ')' | ']' | '}' => {
                flush(&mut cur, depth, &mut out, &mut pending, &mut want_id);
                depth = depth.saturating_sub(1);
            }
            c if c.is_alphanumeric() || c == '_' || c == '.' || c == '-' => cur.push(c),
            _ => flush(&mut cur, depth, &mut out, &mut pending, &mut want_id),
        }
    }
    out
}

fn to_ron_text(p: &Program, clone: bool) -> Result<String, String> {
    let sh = Shared::new(None, false);
    let cfg = build_config(p, &sh);
    let cfg = if clone { cfg.clone() } else { cfg };
    let path = scratch_dir().join("config.ron");
    cfg.to_ron(&path).map_err(|e| format!("{e:#}"))?;
    let t = std::fs::read_to_string(&path).map_err(|e| e.to_string())?;
    let _ = std::fs::remove_file(&path);
    Ok(t)
}

fn first_len(a: &str, b: &str) -> usize {
    a.len().max(b.len())
}

/// Turns the k-th `And`/`Or` of the tree (pre-order) into the other combinator; returns how many
/// combinators were seen.
fn flip_combinator(nodes: &mut [Node], k: &mut isize) -> usize {
    fn in_cond(c: &mut Cond, k: &mut isize) -> usize {
        let mut seen = 0;
        let flipped = match &*c {
            Cond::And { id, ops } => {
                seen += 1;
                *k -= 1;
                if *k == -1 { Some(Cond::Or { id: *id, ops: ops.clone() }) } else { None }
            }
            Cond::Or { id, ops } => {
                seen += 1;
                *k -= 1;
                if *k == -1 { Some(Cond::And { id: *id, ops: ops.clone() }) } else { None }
            }
            _ => None,
        };
        if let Some(f) = flipped {
            *c = f;
            return seen;
        }
        match c {
            Cond::And { ops, .. } | Cond::Or { ops, .. } => seen += ops.iter_mut().map(|o| in_cond(o, k)).sum::<usize>(),
            Cond::Not { inner, .. } => seen += in_cond(inner, k),
            _ => {}
        }
        seen
    }
    let mut seen = 0;
    for n in nodes.iter_mut() {
        match n {
            Node::While { cond, body, .. } => {
                seen += in_cond(cond, k);
                seen += flip_combinator(body, k);
            }
            Node::If { cond, then, els, .. } => {
                seen += in_cond(cond, k);
                seen += flip_combinator(then, k);
                if let Some(e) = els {
                    seen += flip_combinator(e, k);
                }
            }
            Node::Scope { body, .. } => seen += flip_combinator(body, k),
            _ => {}
        }
    }
    seen
}

/// A structurally or parametrically different variant of `p`.
fn mutate_program(p: &Program, g: &mut crate::rng::Gen) -> Option<Program> {
    // the same operands under the other Boolean combinator are another configuration
    if g.chance(0.4) {
        let mut probe = p.root.clone();
        let n = flip_combinator(&mut probe, &mut isize::MAX.clone());
        if n > 0 {
            let mut root = p.root.clone();
            let mut k = g.below(n) as isize;
            flip_combinator(&mut root, &mut k);
            if root != p.root {
                return Some(Program { root, ..p.clone() });
            }
        }
    }
    let cands = shrink_nodes(&p.root);
    if cands.is_empty() {
        return None;
    }
    let root = cands[g.below(cands.len())].clone();
    let q = Program { root, ..p.clone() };
    let (mut a, mut b, mut pa, mut pb) = (Vec::new(), Vec::new(), Vec::new(), Vec::new());
    expected_tokens(&p.root, 0, &mut a, &mut pa);
    expected_tokens(&q.root, 0, &mut b, &mut pb);
    if a == b && pa == pb { None } else { Some(q) }
}

impl World for ConfigExport {
    type Case = RonCase;
    fn name(&self) -> &'static str {
        "config-export-trees"
    }
    fn generate(&self, run_seed: u64, tier: Tier) -> RonCase {
        let mut g = rng::stream(run_seed, "workload");
        let cfg = GenCfg {
            max_nodes: tier.pick(12, 30),
            max_depth: 4,
            max_ops: 2,
            closure_depth: 0,
            panicking_ops: false,
            ntypes: 3,
            real_conds: 0.6,
            loggers: g.chance(0.5),
            requires: true,
            small_values: true,
        };
        RonCase { program: ProgGen::new(&mut g, &cfg).program() }
    }
    fn execute(&self, case: &RonCase) -> Outcome<RonCase> {
        let mut out = Outcome::new();
        out.evaluations = 1;
        out.steps = 1;
        let p = &case.program;
        let mut exp = Vec::new();
        let mut params = Vec::new();
        expected_tokens(&p.root, 0, &mut exp, &mut params);
        let mut fp = Fp::new();
        fp.str(&format!("{exp:?}{params:?}"));
        out.fingerprints.push(fp.0);
        let v = (|| {
            let text = match to_ron_text(p, false) {
                Ok(t) => t,
                Err(e) => {
                    let kind = if e.contains("dentifier") { "invalid-identifier" } else { "other" };
                    return Some(Violation::new(format!("config-not-serialisable reason={kind}"), format!("to_ron failed: {e}")));
                }
            };
            let toks = ron_tokens(&text);
            let names = |v: &[(String, usize)]| v.iter().map(|(n, _)| n.clone()).collect::<Vec<_>>();
            if names(&toks) != names(&exp) {
                return Some(Violation::new("config-export-structure-mismatch", format!("serialisation shows the leaves/conditions {:?}, the configuration has {:?}", names(&toks), names(&exp))));
            }
            // nesting: deeper in the tree means deeper in the text
            for i in 0..exp.len() {
                for j in 0..exp.len() {
                    if exp[i].1 < exp[j].1 && exp[i].0.starts_with("ProbeLeaf") && exp[j].0.starts_with("ProbeLeaf") && toks[i].1 >= toks[j].1 && exp[i].1 == 0 {
                        return Some(Violation::new("config-export-nesting-mismatch", format!("{} (tree depth {}) is serialised at bracket depth {}, {} (tree depth {}) at {}", exp[i].0, exp[i].1, toks[i].1, exp[j].0, exp[j].1, toks[j].1)));
                    }
                }
            }
            let nums = numbers_in(&text);
            for v in &params {
                if !nums.iter().any(|x| x.to_bits() == v.to_bits()) {
                    return Some(Violation::new("config-export-misses-parameter", format!("condition parameter {v} does not occur in the serialised configuration")));
                }
            }
            match to_ron_text(p, true) {
                Ok(t2) if t2 == text => {}
                Ok(_) => return Some(Violation::new("config-export-clone-differs", "a clone of the configuration serialises differently".to_string())),
                Err(e) => return Some(Violation::new("config-export-clone-fails", e)),
            }
            let mut g = crate::rng::Gen::new(fp.0);
            if let Some(q) = mutate_program(p, &mut g) {
                bump(&mut out.counters, "probe:compared with a differing configuration", 1);
                if let Ok(t3) = to_ron_text(&q, false) {
                    if t3 == text {
                        return Some(Violation::new("config-export-not-injective", "two configurations that differ in structure or a parameter serialise identically".to_string()));
                    }
                    // exporting over an existing (longer or shorter) file leaves exactly the new content
                    let sh = Shared::new(None, false);
                    let path = scratch_dir().join("overwrite.ron");
                    let (first, second, expect) = if t3.len() < text.len() { (p, &q, &t3) } else { (&q, p, &text) };
                    let r1 = build_config(first, &sh).to_ron(&path);
                    let r2 = build_config(second, &sh).to_ron(&path);
                    let got = std::fs::read_to_string(&path).unwrap_or_default();
                    let _ = std::fs::remove_file(&path);
                    if r1.is_ok() && r2.is_ok() {
                        bump(&mut out.counters, "probe:export over an existing longer file", (t3.len() != text.len()) as u64);
                        if &got != expect {
                            return Some(Violation::new("config-export-overwrite-leaves-old-content", format!("to_ron over an existing file of {} bytes left {} bytes, a fresh export has {}", first_len(&text, &t3), got.len(), expect.len())));
                        }
                    }
                }
            }
            None
        })();
        if let Some(v) = v {
            out.violation = Some((v, case.clone()));
        }
        out
    }
    fn shrink(&self, case: &RonCase) -> Vec<RonCase> {
        shrink_nodes(&case.program.root).into_iter().map(|root| RonCase { program: Program { root, ..case.program.clone() } }).collect()
    }
}

// ---------------------------------------------------------------------------------------------
// batch: configuration export of the shipped templates

pub struct TemplateExport;

fn template_ron(case: &crate::tw::templates::TCase, clone: bool) -> Result<String, String> {
    use crate::tw::problems::*;
    use crate::tw::templates::*;
    fn go<P: HProblem>(case: &TCase, clone: bool, build: impl Fn(&TCase, Box<dyn mahf::Condition<P>>) -> mahf::ExecResult<mahf::Configuration<P>>) -> Result<String, String> {
        let (cond, _, _) = termination::<P>(case.term);
        let cfg = build(case, cond).map_err(|e| format!("constructor: {e:#}"))?;
        let cfg = if clone { cfg.clone() } else { cfg };
        let path = scratch_dir().join("template.ron");
        cfg.to_ron(&path).map_err(|e| format!("{e:#}"))?;
        let t = std::fs::read_to_string(&path).map_err(|e| e.to_string())?;
        let _ = std::fs::remove_file(&path);
        Ok(t)
    }
    match case.kind.family() {
        Family::Real => go::<RealP>(case, clone, build_real::<RealP>),
        Family::Bin => go::<BinP>(case, clone, build_bin::<BinP>),
        Family::Perm | Family::Tsp => go::<TspP>(case, clone, build_perm::<TspP>),
    }
}

fn numbers_in(text: &str) -> Vec<f64> {
    let mut out = Vec::new();
    let mut cur = String::new();
    let mut in_str = false;
    for ch in text.chars() {
        if ch == '"' {
            in_str = !in_str;
            continue;
        }
        if in_str {
            continue;
        }
        if ch.is_ascii_digit() || ch == '.' || ch == '-' || ch == 'e' || ch == 'E' || ch == '+' {
            cur.push(ch);
        } else {
            if let Ok(v) = cur.parse::<f64>() {
                out.push(v);
            }
            cur.clear();
        }
    }
    if let Ok(v) = cur.parse::<f64>() {
        out.push(v);
    }
    out
}

impl World for TemplateExport {
    type Case = crate::tw::templates::TCase;
    fn name(&self) -> &'static str {
        "config-export-templates"
    }
    fn generate(&self, run_seed: u64, _tier: Tier) -> Self::Case {
        use crate::tw::templates::*;
        let mut g = rng::stream(run_seed, "workload");
        let mut kinds = SHIPPED.to_vec();
        kinds.push(Kind::GaArchive);
        kinds.push(Kind::EsArchive);
        kinds.push(Kind::DeVariants);
        kinds.push(Kind::GaVariants);
        let kind = *g.pick(&kinds);
        gen_case(&mut g, kind, &GenOpts { penalty: false, max_iters: 50, evaluations_term: true, log: false })
    }
    fn execute(&self, case: &Self::Case) -> Outcome<Self::Case> {
        use crate::tw::templates::*;
        let mut out = Outcome::new();
        out.evaluations = 1;
        out.steps = 1;
        bump(&mut out.counters, &format!("exports of {}", case.kind.name()), 1);
        let mut fp = Fp::new();
        fp.str(&format!("{:?}{:?}{:?}", case.kind, case.params, case.term));
        out.fingerprints.push(fp.0);
        let tname = case.kind.name();
        let v = (|| {
            let text = match template_ron(case, false) {
                Ok(t) => t,
                Err(e) if e.starts_with("constructor:") => {
                    eprintln!("harness error: template constructor rejected generated parameters: {e}");
                    std::process::exit(2);
                }
                Err(e) => return Some(Violation::new(format!("template-not-serialisable template={tname}"), format!("{tname}: to_ron failed: {e}"))),
            };
            let nums = numbers_in(&text);
            for (k, v) in &case.params {
                if matches!(case.kind, Kind::DeVariants | Kind::GaVariants) {
                    break; // which parameters are used depends on the operators the assembly selected
                }
                if k.ends_with("_kind") || k == "insert_both" || k == "crossover_points" {
                    continue; // harness-side selector of the assembly, not a component parameter
                }
                if !nums.iter().any(|x| x.to_bits() == v.to_bits() || (*x - *v).abs() <= 1e-12 * v.abs()) {
                    return Some(Violation::new(format!("template-export-misses-parameter template={tname} parameter={k}"), format!("{tname}: parameter {k} = {v} does not occur in the serialised configuration")));
                }
            }
            let n = match case.term {
                Term::Iterations(n) | Term::Evaluations(n) | Term::Either { iters: n, .. } => n as f64,
            };
            if !nums.contains(&n) {
                return Some(Violation::new(format!("template-export-misses-parameter template={tname} parameter=termination"), format!("{tname}: the termination bound {n} does not occur in the serialised configuration")));
            }
            // configurations that differ only in the identifier of a component differ in structure
            {
                use crate::tw::problems::RealP;
                use mahf::identifier::{Global, A, B};
                let ron_of = |cfg: mahf::Configuration<RealP>| -> Result<String, String> {
                    let path = scratch_dir().join("identifier.ron");
                    cfg.to_ron(&path).map_err(|e| format!("{e:#}"))?;
                    let t = std::fs::read_to_string(&path).map_err(|e| e.to_string())?;
                    let _ = std::fs::remove_file(&path);
                    Ok(t)
                };
                let texts = [
                    ron_of(mahf::Configuration::builder().evaluate_with::<Global>().build()),
                    ron_of(mahf::Configuration::builder().evaluate_with::<A>().build()),
                    ron_of(mahf::Configuration::builder().evaluate_with::<B>().build()),
                    ron_of(mahf::Configuration::builder().evaluate_with::<A>().build()),
                ];
                match texts {
                    [Ok(g), Ok(a), Ok(b), Ok(a2)] => {
                        bump(&mut out.counters, "probe:compared configurations that differ in an identifier", 1);
                        if g == a || a == b || g == b {
                            return Some(Violation::new("config-export-not-injective identifiers", "evaluation steps under the identifiers Global, A and B do not all serialise differently".to_string()));
                        }
                        if a != a2 {
                            return Some(Violation::new("config-export-not-repeatable identifiers", "the same configuration serialised twice gives two texts".to_string()));
                        }
                    }
                    _ => return Some(Violation::new("config-not-serialisable reason=identifier", "an evaluation step under an identifier does not serialise".to_string())),
                }
            }
            match template_ron(case, true) {
                Ok(t2) if t2 == text => {}
                _ => return Some(Violation::new(format!("template-export-clone-differs template={tname}"), format!("{tname}: a clone serialises differently"))),
            }
            if matches!(case.kind, Kind::DeVariants | Kind::GaVariants) {
                return None; // not every drawn parameter is used by the operators the assembly selected
            }
            // a configuration with one parameter changed serialises differently
            let mut g = crate::rng::Gen::new(fp.0);
            let keys: Vec<&String> = case.params.keys().collect();
            if !keys.is_empty() {
                let k = keys[g.below(keys.len())].clone();
                let other = gen_case(&mut g, case.kind, &GenOpts { penalty: false, max_iters: 50, evaluations_term: false, log: false });
                if let (Some(a), Some(b)) = (case.params.get(&k), other.params.get(&k)) {
                    if a != b {
                        let mut p = case.params.clone();
                        p.insert(k.clone(), *b);
                        // keep cross-parameter constraints: take the whole consistent set when needed
                        let variant = TCase { params: if matches!(k.as_str(), "deviation" | "pc" | "pm" | "rm" | "f" | "alpha" | "beta" | "gamma" | "delta" | "t_0" | "c_one" | "c_two" | "start_weight" | "end_weight" | "evaporation" | "mole_coll" | "buffer" | "initial_kinetic_energy") { p } else { other.params.clone() }, problem: case.problem.clone(), ..case.clone() };
                        if variant.params != case.params {
                            if let Ok(t3) = template_ron(&variant, false) {
                                bump(&mut out.counters, "probe:compared with a differing configuration", 1);
                                if t3 == text {
                                    return Some(Violation::new(format!("template-export-not-injective template={tname}"), format!("{tname}: changing {k} from {a} to {b} does not change the serialisation")));
                                }
                            }
                        }
                    }
                }
            }
            None
        })();
        if let Some(v) = v {
            out.violation = Some((v, case.clone()));
        }
        out
    }
}

pub fn run(tier: Tier, seed: u64, known: &KnownFindings) -> CheckReport {
    let mk = |batch: &'static str, runs: u64| BatchConfig { check_id: "C15", batch, base_seed: seed, tier, runs, threads: threads(), known, samples: 1 };
    let b1 = run_batch(&LogContent, &mk("log-content", tier.pick(60_000, 2_000_000)));
    let b2 = run_batch(&ExportFaults, &mk("export-faults", tier.pick(3_000, 120_000)));
    let b3 = run_batch(&DevFull, &mk("dev-full", tier.pick(200, 3_000)));
    let b4 = run_batch(&ConfigExport, &mk("config-export-trees", tier.pick(40_000, 600_000)));
    let b5 = run_batch(&TemplateExport, &mk("config-export-templates", tier.pick(40_000, 600_000)));
    let b6 = {
        // par_experiment prints a line per call
        let _quiet = crate::par::StdoutSilencer::new();
        run_batch(&crate::checks::experiment::Experiment { prop: "C15" }, &mk("par-experiment-files", tier.pick(5_000, 150_000)))
    };
    CheckReport {
        property_id: "C15".into(),
        tier,
        seed,
        level: "fault_enumeration",
        rule: "log-content: one case = a generated configuration with loggers (inside loops, scopes, branches; several loggers; zero-pass loops) and a rule set (always / never / scripted / real-condition triggers; ValueOf and IdLens extractors over present and absent states; duplicate names; the iteration counter as an extractor), run fault-free or with one injected failure; the expected log comes from the reference interpreter and is compared with the JSON and the CBOR export after decoding; non-trivial = the expected log has at least one step; distinct = distinct expected logs. export-faults: one case = (log or configuration, format json|cbor|ron, I/O fault plan); for the all-offsets plans the device-full fault is enumerated over EVERY byte offset of the fault-free output; oracle: Ok(()) implies the bytes on the simulated disk decode to the expected content, transient faults (short writes, EINTR) must not fail the export. dev-full: the same against the kernel's /dev/full without any hook. config-export-trees: to_ron of generated trees: succeeds, shows the pre-order sequence of components and parameter values, equals the clone's, differs from a mutated tree's. config-export-templates: every shipped template (and the ga/es archive assemblies) over its parameter ranges: to_ron succeeds, every parameter value and the termination bound occur in the text, clone identical, one changed parameter changes the text. par-experiment-files: par_experiment on the simulated pool under seeded schedules and I/O fault plans (mkdir fail, create fail on the k-th file, device full / flush failure on one file, short writes + EINTR): a fired failing fault means Err (mkdir / configuration.ron failure: before any objective call); otherwise Ok, the file set is exactly configuration.ron + name_run.cbor, configuration.ron equals to_ron, every log file decodes to the log of that (problem, seed) executed alone".into(),
        assumptions: vec![
            "a logger with no iteration counter in sight is outside the statement (it presupposes a current iteration count); the generator always provides a loop initialised in the outermost scope".into(),
            "after an export returned Err nothing is claimed about the file".into(),
        ],
        real_components: vec!["mahf::logging::{Logger, LogConfig, Log (to_json, to_cbor)}".into(), "mahf::Configuration::to_ron, serde_json, ciborium, ron".into(), "std::fs on the fault-free paths and for /dev/full".into()],
        stubbed_components: vec!["the disk's failure behaviour (SimDisk: a fault-injecting layer behind the cfg(mahf_verif) I/O seam in front of real scratch files; accepted bytes are written through)".into(), "leaf components and scripted triggers".into()],
        batches: vec![b1, b2, b3, b4, b5, b6],
        extra: Default::default(),
    }
}
