//! C03 — structured-program semantics and lifecycle: generated trees × every single fault
//! point, real trace vs reference interpreter, caller state audited after the run.

use crate::engine::gen::{GenCfg, ProgGen};
use crate::engine::program::*;
use crate::framework::*;
use crate::rng::{self, Fp};
use serde::{Deserialize, Serialize};
use std::collections::BTreeSet;

#[derive(Clone, Debug, Serialize, Deserialize)]
pub enum Plans {
    /// no fault, then every (node, phase, occurrence) of the fault-free reference trace
    All,
    One(Option<Fault>),
}

#[derive(Clone, Debug, Serialize, Deserialize)]
pub struct Case {
    pub program: Program,
    pub plans: Plans,
    pub clone_config: bool,
}

pub struct C03World {
    pub real_conds: f64,
    pub loggers: bool,
}

fn cond_ids(nodes: &[Node], out: &mut BTreeSet<u32>) {
    fn c(c: &Cond, out: &mut BTreeSet<u32>) {
        out.insert(c.id());
        match c {
            Cond::And { ops, .. } | Cond::Or { ops, .. } => ops.iter().for_each(|o| c_(o, out)),
            Cond::Not { inner, .. } => c_(inner, out),
            _ => {}
        }
    }
    fn c_(x: &Cond, out: &mut BTreeSet<u32>) {
        c(x, out)
    }
    for n in nodes {
        match n {
            Node::While { cond, body, .. } => {
                c(cond, out);
                cond_ids(body, out);
            }
            Node::If { cond, then, els, .. } => {
                c(cond, out);
                cond_ids(then, out);
                if let Some(e) = els {
                    cond_ids(e, out);
                }
            }
            Node::Scope { body, .. } => cond_ids(body, out),
            _ => {}
        }
    }
}

pub fn end_kind(e: &RunEnd) -> &'static str {
    match e {
        RunEnd::Ok => "ok",
        RunEnd::Injected { .. } => "injected-error",
        RunEnd::NotFound => "not-found",
        RunEnd::RequiredMissing => "required-missing",
        RunEnd::Panicked => "panic",
        RunEnd::Budget => "budget",
        RunEnd::Other(_) => "other-error",
    }
}

/// Runs one (program, fault) pair on the real code and on the reference interpreter.
pub fn check_one(
    p: &Program,
    fault: Option<Fault>,
    clone_config: bool,
    fp: &mut Option<u64>,
    steps: &mut u64,
    probes: &mut Counters,
) -> Option<Violation> {
    let mut it = Interp::new(p, fault, true);
    if p.log_rules.is_some() {
        it.model.top().insert(TAG_LOGCFG, 1);
    }
    let exp_end = it.run(p);
    if exp_end == RunEnd::Budget {
        *fp = None;
        return None;
    }
    let real = run_real(p, fault, true, clone_config);
    *steps += it.steps;
    for (k, v) in &it.probes {
        bump(probes, &format!("probe:{k}"), *v);
    }
    let mut h = Fp::new();
    h.str(&format!("{:?}", it.trace.iter().map(|e| match e {
        Ev::Enter { id, phase, occ } => (0u8, *id, *phase as u8 as u32, *occ),
        Ev::Ret { id, idx, .. } => (1, *id, *idx, 0),
        Ev::Snap { id, .. } => (2, *id, 0, 0),
        Ev::Eval { id, value, .. } => (3, *id, *value as u32, 0),
    }).collect::<Vec<_>>()));
    h.str(end_kind(&exp_end));
    let nontrivial = it.trace.iter().any(|e| matches!(e, Ev::Enter { phase: Phase::Exec, .. }));
    *fp = if nontrivial { Some(h.0) } else { None };

    let after = if exp_end == RunEnd::Ok { "ok" } else { "error" };
    if let Some(d) = trace_diff(&it.trace, &real.trace) {
        return Some(Violation::new(
            format!("{} after={}", diff_class(&it.trace, &real.trace), after),
            format!("fault={fault:?}: {d}{}", real.panic.as_ref().map(|p| format!(" (panic: {p})")).unwrap_or_default()),
        ));
    }
    if exp_end != real.end {
        return Some(Violation::new(
            format!("run-result expected={} real={}", end_kind(&exp_end), end_kind(&real.end)),
            format!("fault={fault:?}: expected run result {exp_end:?}, real {:?}{}", real.end, real.panic.as_ref().map(|p| format!(" (panic: {p})")).unwrap_or_default()),
        ));
    }
    let exp_levels = it.visible_levels();
    if real.final_levels.len() != 1 {
        return Some(Violation::new(
            format!("scope-left-open after={after}"),
            format!("fault={fault:?}: caller state has {} scope levels after the run (expected 1): {:?}", real.final_levels.len(), real.final_levels),
        ));
    }
    let strip = |l: &Vec<std::collections::BTreeMap<u8, u64>>| -> Vec<std::collections::BTreeMap<u8, u64>> {
        l.clone()
    };
    if !levels_eq(&strip(&exp_levels), &real.final_levels) {
        return Some(Violation::new(
            format!("caller-state-mismatch after={after}"),
            format!("fault={fault:?}: caller state after the run: expected {:?}, real {:?}", strip(&exp_levels), real.final_levels),
        ));
    }
    if p.log_rules.is_some() && !real.logcfg_present {
        return Some(Violation::new(
            format!("caller-state-lost-logconfig after={after}"),
            format!("fault={fault:?}: the LogConfig the caller inserted is gone after the run"),
        ));
    }
    None
}

impl World for C03World {
    type Case = Case;
    fn name(&self) -> &'static str {
        "engine-programs"
    }

    fn generate(&self, run_seed: u64, tier: Tier) -> Case {
        let mut g = rng::stream(run_seed, "workload");
        let cfg = GenCfg {
            max_nodes: tier.pick(12, 30),
            max_depth: tier.pick(3, 4),
            max_ops: 3,
            closure_depth: 1,
            panicking_ops: false,
            ntypes: 4,
            real_conds: self.real_conds,
            loggers: self.loggers,
            requires: true,
            small_values: false,
        };
        let program = ProgGen::new(&mut g, &cfg).program();
        Case { program, plans: Plans::All, clone_config: g.chance(0.25) }
    }

    fn execute(&self, case: &Case) -> Outcome<Case> {
        let mut out = Outcome::new();
        let p = &case.program;
        let plans: Vec<Option<Fault>> = match &case.plans {
            Plans::One(f) => vec![*f],
            Plans::All => {
                let mut it = Interp::new(p, None, false);
                if p.log_rules.is_some() {
                    it.model.top().insert(TAG_LOGCFG, 1);
                }
                it.run(p);
                let mut v = vec![None];
                for e in &it.trace {
                    if let Ev::Enter { id, phase, occ } = e {
                        v.push(Some(Fault { id: *id, phase: *phase, occ: *occ }));
                    }
                }
                v
            }
        };
        let mut conds = BTreeSet::new();
        cond_ids(&p.root, &mut conds);
        if let Some(rules) = &p.log_rules {
            for r in rules {
                let mut tmp = vec![Node::If { id: 0, cond: r.trigger.clone(), then: vec![], els: None }];
                cond_ids(&tmp, &mut conds);
                tmp.clear();
            }
        }
        for plan in plans {
            out.evaluations += 1;
            if let Some(f) = plan {
                let what = if conds.contains(&f.id) { "condition" } else { "leaf" };
                let ph = match f.phase {
                    Phase::Init => "init",
                    Phase::Require => "require",
                    Phase::Exec => if what == "leaf" { "execute" } else { "evaluate" },
                };
                bump(&mut out.counters, &format!("fault:{what}-fail-{ph}"), 1);
            } else {
                bump(&mut out.counters, "fault-free executions", 1);
            }
            let mut fp = None;
            let v = check_one(p, plan, case.clone_config, &mut fp, &mut out.steps, &mut out.counters);
            if let Some(f) = fp {
                out.fingerprints.push(f);
            }
            if let Some(v) = v {
                if out.violation.is_none() {
                    out.violation = Some((v, Case { program: p.clone(), plans: Plans::One(plan), clone_config: case.clone_config }));
                    break;
                }
            }
        }
        out
    }

    fn shrink(&self, case: &Case) -> Vec<Case> {
        let mut out = Vec::new();
        if case.clone_config {
            out.push(Case { clone_config: false, ..case.clone() });
        }
        for root in shrink_nodes(&case.program.root) {
            out.push(Case {
                program: Program { root, ..case.program.clone() },
                ..case.clone()
            });
        }
        if !case.program.pre_ops.is_empty() {
            for pre in crate::engine::ops::shrink_ops(&case.program.pre_ops) {
                out.push(Case { program: Program { pre_ops: pre, ..case.program.clone() }, ..case.clone() });
            }
        }
        if let Some(rules) = &case.program.log_rules {
            for i in 0..rules.len() {
                let mut r = rules.clone();
                r.remove(i);
                out.push(Case { program: Program { log_rules: Some(r), ..case.program.clone() }, ..case.clone() });
            }
        }
        out
    }
}

pub fn run(tier: Tier, seed: u64, known: &KnownFindings) -> CheckReport {
    let world = C03World { real_conds: 0.0, loggers: false };
    let cfg = BatchConfig {
        check_id: "C03",
        batch: "programs-x-faults",
        base_seed: seed,
        tier,
        runs: tier.pick(50_000, 1_000_000),
        threads: threads(),
        known,
        samples: 2,
    };
    let b = run_batch(&world, &cfg);
    CheckReport {
        property_id: "C03".into(),
        tier,
        seed,
        level: "fault_enumeration",
        rule: "one case = one generated configuration tree over {leaf, sequence, while, if, if/else, scope} (real Block/Loop/Branch/Scope built through ConfigurationBuilder, probe leaves, scripted conditions); it is executed fault-free and once per (leaf or condition, phase, occurrence) event of its fault-free reference trace, with that event failing. evaluations = executions; distinct_nontrivial = distinct (event-skeleton, run result) fingerprints among executions in which at least one leaf or condition reached its execute phase".into(),
        assumptions: vec![
            "the reference interpreter (engine/program.rs) is the meaning of 'the corresponding structured program'".into(),
            "leaves and conditions are harness components; Block/Loop/Branch/Scope, Configuration::run, ConfigurationBuilder, State and StateRegistry are the real code".into(),
        ],
        real_components: vec!["mahf::configuration::{Configuration, ConfigurationBuilder}".into(), "mahf::components::control_flow::{Block, Loop, Branch, Scope}".into(), "mahf::state::{State, StateRegistry, StateReq}".into()],
        stubbed_components: vec!["leaf components and conditions (harness probes with scripted behaviour and injected failures)".into()],
        batches: vec![b],
        extra: Default::default(),
    }
}
