//! C10 — conditions decide what their names say; loops make exactly n passes.

use crate::checks::c03;
use crate::engine::gen::{GenCfg, ProgGen};
use crate::engine::ops::*;
use crate::engine::program::*;
use crate::engine::types::*;
use crate::framework::*;
use crate::rng::{self, Fp, SimRng};
use mahf::conditions::RandomChance;
use mahf::{Condition, Random, State};
use serde::{Deserialize, Serialize};

/// Generated programs whose loop / branch conditions are real mahf conditions over
/// probe-controlled state (fault-free; failures are C03's business).
pub struct CondPrograms;

impl World for CondPrograms {
    type Case = c03::Case;
    fn name(&self) -> &'static str {
        "condition-programs"
    }
    fn generate(&self, run_seed: u64, tier: Tier) -> c03::Case {
        let mut g = rng::stream(run_seed, "workload");
        let cfg = GenCfg {
            max_nodes: tier.pick(12, 24),
            max_depth: 3,
            max_ops: 3,
            closure_depth: 0,
            panicking_ops: false,
            ntypes: 1 + g.below(3) as u8,
            real_conds: 1.0,
            loggers: false,
            requires: false,
            small_values: true,
        };
        let mut program = ProgGen::new(&mut g, &cfg).program();
        // give the observed types initial values most of the time (an absent source is an error)
        for t in 0..cfg.ntypes {
            if g.chance(0.85) {
                program.pre_ops.push(Op::Insert(t, g.below(6) as u32));
            }
        }
        c03::Case { program, plans: c03::Plans::One(None), clone_config: false }
    }
    fn execute(&self, case: &c03::Case) -> Outcome<c03::Case> {
        let mut out = Outcome::new();
        out.evaluations = 1;
        let mut fp = None;
        let mut probes = Counters::new();
        let v = c03::check_one(&case.program, None, false, &mut fp, &mut out.steps, &mut probes);
        for (k, n) in probes {
            bump(&mut out.counters, &k, n);
        }
        // count which condition kinds were actually evaluated
        let mut it = Interp::new(&case.program, None, false);
        it.run(&case.program);
        let mut kinds = std::collections::BTreeMap::new();
        collect_kinds(&case.program.root, &mut kinds);
        for e in &it.trace {
            if let Ev::Eval { id, .. } = e {
                if let Some(k) = kinds.get(id) {
                    bump(&mut out.counters, &format!("evaluations of {k}"), 1);
                }
            }
        }
        if let Some(f) = fp {
            out.fingerprints.push(f);
        }
        if let Some(v) = v {
            out.violation = Some((v, case.clone()));
        }
        out
    }
    fn shrink(&self, case: &c03::Case) -> Vec<c03::Case> {
        c03::C03World { real_conds: 1.0, loggers: false }.shrink(case)
    }
}

fn collect_kinds(nodes: &[Node], out: &mut std::collections::BTreeMap<u32, &'static str>) {
    fn c(x: &Cond, out: &mut std::collections::BTreeMap<u32, &'static str>) {
        out.insert(x.id(), x.kind());
        match x {
            Cond::And { ops, .. } | Cond::Or { ops, .. } => ops.iter().for_each(|o| c(o, out)),
            Cond::Not { inner, .. } => c(inner, out),
            _ => {}
        }
    }
    for n in nodes {
        match n {
            Node::While { cond, body, .. } => {
                c(cond, out);
                collect_kinds(body, out);
            }
            Node::If { cond, then, els, .. } => {
                c(cond, out);
                collect_kinds(then, out);
                if let Some(e) = els {
                    collect_kinds(e, out);
                }
            }
            Node::Scope { body, .. } => collect_kinds(body, out),
            _ => {}
        }
    }
}

// ---------------------------------------------------------------------------------------------
// iteration-bounded loops: exactly n passes, n + 1 tests, progress value / n

#[derive(Clone, Debug, Serialize, Deserialize)]
pub struct LoopCase {
    pub n: u32,
    /// number of enclosing scopes around the loop
    pub scopes: u32,
    /// an inner bounded loop (in its own scope) with this bound inside the body
    pub inner: Option<u32>,
    /// the outer loop bound is observed through a probe counter instead of the loop counter
    pub via_probe: bool,
}

pub struct BoundedLoops;

fn loop_program(c: &LoopCase) -> Program {
    // ids: 1 = outer loop cond, 2 = outer body leaf, 3 = inner cond, 4 = inner body leaf
    let mut body = vec![Node::Leaf {
        id: 2,
        init_ops: vec![],
        req: None,
        ops: if c.via_probe {
            // the leaf counts its own executions in T0
            vec![]
        } else {
            vec![]
        },
    }];
    if let Some(m) = c.inner {
        body.push(Node::Scope {
            hooks: None,
            id: 10,
            body: vec![Node::While {
                id: 11,
                cond: Cond::LessThan { id: 3, t: TAG_IT, n: m },
                body: vec![Node::Leaf { id: 4, init_ops: vec![], req: None, ops: vec![] }],
            }],
        });
    }
    let mut node = Node::While {
        id: 12,
        cond: Cond::LessThan { id: 1, t: TAG_IT, n: c.n },
        body,
    };
    for i in 0..c.scopes {
        node = Node::Scope { id: 20 + i, body: vec![node], hooks: None };
    }
    Program { root: vec![node], log_rules: None, pre_ops: vec![], resume: false, optimum: 0.0 }
}

impl World for BoundedLoops {
    type Case = LoopCase;
    fn name(&self) -> &'static str {
        "bounded-loops"
    }
    fn generate(&self, run_seed: u64, tier: Tier) -> LoopCase {
        let mut g = rng::stream(run_seed, "workload");
        LoopCase {
            n: g.below(tier.pick(41, 200)) as u32,
            scopes: g.below(3) as u32,
            inner: if g.chance(0.4) { Some(g.below(6) as u32) } else { None },
            via_probe: false,
        }
    }
    fn execute(&self, case: &LoopCase) -> Outcome<LoopCase> {
        let mut out = Outcome::new();
        out.evaluations = 1;
        let p = loop_program(case);
        let real = run_real(&p, None, false, false);
        let count = |id: u32, phase: Phase| real.trace.iter().filter(|e| matches!(e, Ev::Enter { id: i, phase: ph, .. } if *i == id && *ph == phase)).count() as u32;
        let passes = count(2, Phase::Exec);
        let tests = real.trace.iter().filter(|e| matches!(e, Ev::Eval { id: 1, .. })).count() as u32;
        out.steps += real.trace.len() as u64;
        let mut fp = Fp::new();
        fp.u64(case.n as u64);
        fp.u64(case.scopes as u64);
        fp.u64(case.inner.map(|m| m as u64 + 1).unwrap_or(0));
        if case.n > 0 {
            out.fingerprints.push(fp.0);
        }
        if case.n == 0 {
            bump(&mut out.counters, "probe:zero-pass bounded loop", 1);
        }
        let mut bad = None;
        if real.end != RunEnd::Ok {
            bad = Some(Violation::new("bounded-loop-run-failed", format!("{case:?}: run ended with {:?} {:?}", real.end, real.panic)));
        } else if passes != case.n {
            bad = Some(Violation::new("bounded-loop-pass-count", format!("{case:?}: {passes} passes instead of {}", case.n)));
        } else if tests != case.n + 1 {
            bad = Some(Violation::new("bounded-loop-test-count", format!("{case:?}: condition tested {tests} times instead of {}", case.n + 1)));
        } else {
            // progress after the k-th test (k = 0..n) is k / n
            let progs: Vec<Option<u64>> = real.trace.iter().filter_map(|e| match e { Ev::Eval { id: 1, aux, .. } => Some(*aux), _ => None }).collect();
            for (k, pr) in progs.iter().enumerate() {
                let exp = (k as f64) / (case.n as f64);
                let ok = match pr {
                    Some(b) => {
                        let got = f64::from_bits(*b);
                        got.to_bits() == exp.to_bits() || (got.is_nan() && exp.is_nan()) || (got - exp).abs() <= 1e-12 * (1.0 + exp.abs())
                    }
                    None => false,
                };
                if !ok {
                    bad = Some(Violation::new("bounded-loop-progress", format!("{case:?}: progress after test #{k} is {:?}, expected {exp}", pr.map(f64::from_bits))));
                    break;
                }
            }
            if let (None, Some(m)) = (&bad, case.inner) {
                let inner_passes = count(4, Phase::Exec);
                if inner_passes != m * case.n {
                    bad = Some(Violation::new("nested-bounded-loop-pass-count", format!("{case:?}: inner loop (own scope) made {inner_passes} passes in total instead of {}", m * case.n)));
                }
                bump(&mut out.counters, "probe:nested bounded loop in its own scope", 1);
            }
        }
        if let Some(v) = bad {
            out.violation = Some((v, case.clone()));
        }
        out
    }
    fn shrink(&self, case: &LoopCase) -> Vec<LoopCase> {
        let mut v = Vec::new();
        if case.n > 0 {
            v.push(LoopCase { n: case.n / 2, ..case.clone() });
            v.push(LoopCase { n: case.n - 1, ..case.clone() });
        }
        if case.scopes > 0 {
            v.push(LoopCase { scopes: case.scopes - 1, ..case.clone() });
        }
        if case.inner.is_some() {
            v.push(LoopCase { inner: None, ..case.clone() });
        }
        v
    }
}

// ---------------------------------------------------------------------------------------------
// random-chance fires with the configured probability

#[derive(Clone, Debug, Serialize, Deserialize)]
pub struct ChanceCase {
    pub p: f64,
    pub n: u32,
    pub rng_seed: u64,
}

pub struct Chance;

impl World for Chance {
    type Case = ChanceCase;
    fn name(&self) -> &'static str {
        "random-chance"
    }
    fn generate(&self, run_seed: u64, tier: Tier) -> ChanceCase {
        let mut g = rng::stream(run_seed, "workload");
        let p = match g.below(6) {
            0 => 0.0,
            1 => 1.0,
            2 => *g.pick(&[0.001, 0.01, 0.5, 0.99, 0.999]),
            _ => g.f64(),
        };
        ChanceCase { p, n: tier.pick(20_000, 100_000), rng_seed: g.u64() }
    }
    fn execute(&self, case: &ChanceCase) -> Outcome<ChanceCase> {
        let mut out = Outcome::new();
        out.evaluations = 1;
        let mut st: State<'static, EP> = State::new();
        st.insert(Random::with_rng::<SimRng>(case.rng_seed));
        let cond = RandomChance::from_params(case.p);
        let mut hits = 0u32;
        let r = guarded(|| {
            for _ in 0..case.n {
                if <RandomChance as Condition<EP>>::evaluate(&cond, &EP, &mut st).unwrap_or(false) {
                    hits += 1;
                }
            }
        });
        out.steps += case.n as u64;
        let freq = hits as f64 / case.n as f64;
        let sigma = (case.p * (1.0 - case.p) / case.n as f64).sqrt();
        let tol = 6.0 * sigma + 0.005;
        let mut fp = Fp::new();
        fp.f64(case.p);
        fp.u64(case.rng_seed);
        if case.p > 0.0 && case.p < 1.0 {
            out.fingerprints.push(fp.0);
        } else {
            bump(&mut out.counters, "probe:random-chance with p in {0, 1}", 1);
        }
        let bad = if let Err(p) = r {
            Some(format!("panicked: {p}"))
        } else if case.p == 0.0 && hits != 0 {
            Some(format!("fired {hits} times with p = 0"))
        } else if case.p == 1.0 && hits != case.n {
            Some(format!("fired only {hits} of {} times with p = 1", case.n))
        } else if (freq - case.p).abs() > tol {
            Some(format!("fired with frequency {freq} over {} evaluations, configured p = {} (tolerance {tol})", case.n, case.p))
        } else {
            None
        };
        if let Some(m) = bad {
            out.violation = Some((Violation::new("random-chance-frequency", m), case.clone()));
        }
        out
    }
}

pub fn run(tier: Tier, seed: u64, known: &KnownFindings) -> CheckReport {
    let mk = |batch: &'static str, runs: u64| BatchConfig { check_id: "C10", batch, base_seed: seed, tier, runs, threads: threads(), known, samples: 1 };
    let b1 = run_batch(&CondPrograms, &mk("condition-programs", tier.pick(800_000, 12_000_000)));
    let b2 = run_batch(&BoundedLoops, &mk("bounded-loops", tier.pick(20_000, 200_000)));
    let b3 = run_batch(&Chance, &mk("random-chance", tier.pick(1_500, 10_000)));
    CheckReport {
        property_id: "C10".into(),
        tier,
        seed,
        level: "exploration",
        rule: "condition-programs: one case = a generated configuration whose while/if conditions are the real LessThanN, EveryN, ChangeOf (PartialEq and delta checkers), OptimumReached and And/Or/Not (depth <= 2, scripted operands that record their evaluations) over state that probe leaves rewrite from small value ranges (repeats, sub- and supra-threshold moves, best value set/cleared/infinite); oracle = event-for-event equality (truth value of every evaluation, progress after every less-than-n test, every operand evaluated exactly once) with the reference interpreter; non-trivial = at least one condition evaluated; distinct = distinct event skeletons. bounded-loops: n in 0..200, 0..2 enclosing scopes, optional inner bounded loop in its own scope: passes = n, tests = n+1, progress = k/n. random-chance: p in {0, 1} exact, otherwise frequency over >= 20000 draws within 6 sigma + 0.005".into(),
        assumptions: vec![
            "change-of: the first evaluation after initialisation reports a change (nothing has been reported yet); afterwards the oracle keeps one memory per observed lens".into(),
            "conditions over state that is absent are errors (the lens fails); the oracle expects exactly that".into(),
        ],
        real_components: vec!["mahf::conditions::{LessThanN, EveryN, ChangeOf, PartialEqChecker, DeltaEqChecker, OptimumReached, RandomChance, And, Or, Not}".into(), "mahf::components::control_flow::{Loop, Branch, Scope, Block}".into(), "mahf::lens::ValueOf, mahf::state::common::{Iterations, Progress, BestIndividual}".into()],
        stubbed_components: vec!["leaf components (harness probes), scripted operands".into()],
        batches: vec![b1, b2, b3],
        extra: Default::default(),
    }
}
