//! C05, individual level: seeded histories of `Individual` operations (construction, evaluation,
//! every access that can change the solution, every copy path incl. `clone_from` through
//! `Vec`/slice/`Option`, the population helpers) against an (solution, Option<objective>) model.
//! This clause has no schedule or fault in it; it is a reference-model history check driven by the
//! simulator's seeded generator (like C01/C02).

use crate::framework::*;
use crate::rng::{self, Fp};
use crate::tw::problems::*;
use mahf::population::{AsSolutionsMut, IntoIndividuals, IntoSolutions};
use mahf::{Individual, SingleObjective};
use serde::{Deserialize, Serialize};

#[derive(Clone, Debug, Serialize, Deserialize, PartialEq)]
pub enum IOp {
    NewEvaluated(Vec<f64>),
    NewUnevaluated(Vec<f64>),
    Evaluate(usize),
    /// `evaluate_with` another function than last time (a surrogate, a dynamic or noisy
    /// objective): the value is the one the function asked *now* assigns
    EvaluateOther(usize),
    SetObjective(usize),
    /// `solution_mut()[k] = v`
    Write(usize, usize, f64),
    /// `solution_mut()` without writing
    TouchMut(usize),
    Clone(usize),
    /// `a[i].clone_from(&a[j])`
    CloneFrom(usize, usize),
    /// `b.clone_from(&a)` on the whole vectors (element-wise `clone_from` for the common prefix)
    VecCloneFrom,
    /// `a[..n].clone_from_slice(&b[..n])`
    CloneFromSlice(usize),
    /// `Option<Individual>::clone_from`
    OptionCloneFrom(usize, usize),
    /// move from `a` to `b`
    Move(usize),
    /// `as_solutions_mut()` on `b`
    AsSolutionsMut,
    /// `b.into_solutions().into_individuals()`
    Rebuild,
    Swap,
}

#[derive(Clone, Debug, Serialize, Deserialize)]
pub struct ICase {
    pub ops: Vec<IOp>,
}

pub struct IndividualHistories;

type M = (Vec<f64>, Option<f64>);

fn f(p: &RealP, x: &Vec<f64>) -> f64 {
    p.reference(x)
}

fn obj(v: f64) -> SingleObjective {
    SingleObjective::try_from(v).unwrap()
}

impl World for IndividualHistories {
    type Case = ICase;
    fn name(&self) -> &'static str {
        "individual-histories"
    }
    fn generate(&self, run_seed: u64, tier: Tier) -> ICase {
        let mut g = rng::stream(run_seed, "workload");
        let n = 3 + g.below(tier.pick(30, 80));
        let dim = 1 + g.below(3);
        let mut sol = |g: &mut crate::rng::Gen| (0..dim).map(|_| (g.below(9) as f64) - 4.0).collect::<Vec<f64>>();
        let ops = (0..n)
            .map(|_| {
                let i = g.below(6);
                let j = g.below(6);
                match g.below(16) {
                    0 | 1 => IOp::NewEvaluated(sol(&mut g)),
                    2 | 3 => IOp::NewUnevaluated(sol(&mut g)),
                    4 => if g.chance(0.7) { IOp::Evaluate(i) } else { IOp::EvaluateOther(i) },
                    5 => IOp::SetObjective(i),
                    6 => IOp::Write(i, g.below(dim), (g.below(9) as f64) - 4.0),
                    7 => IOp::TouchMut(i),
                    8 => IOp::Clone(i),
                    9 => IOp::CloneFrom(i, j),
                    10 => IOp::VecCloneFrom,
                    11 => IOp::CloneFromSlice(1 + g.below(4)),
                    12 => IOp::OptionCloneFrom(i, j),
                    13 => IOp::Move(i),
                    14 => if g.chance(0.5) { IOp::AsSolutionsMut } else { IOp::Rebuild },
                    _ => IOp::Swap,
                }
            })
            .collect();
        ICase { ops }
    }

    fn execute(&self, c: &ICase) -> Outcome<ICase> {
        let mut out = Outcome::new();
        out.evaluations = 1;
        let p = RealP::new(RealSpec { kind: RealKind::Shifted, dim: 3, lo: -5.0, hi: 5.0, penalty: None, name: "ind".into(), scale: 1.0 });
        let mut a: Vec<Individual<RealP>> = Vec::new();
        let mut b: Vec<Individual<RealP>> = Vec::new();
        let mut ma: Vec<M> = Vec::new();
        let mut mb: Vec<M> = Vec::new();
        let mut fp = Fp::new();
        let mut copies_into_evaluated = 0;
        for (k, op) in c.ops.iter().enumerate() {
            out.steps += 1;
            fp.str(&format!("{op:?}"));
            let mut note: Option<String> = None;
            match op {
                IOp::NewEvaluated(x) => {
                    a.push(Individual::new(x.clone(), obj(f(&p, x))));
                    ma.push((x.clone(), Some(f(&p, x))));
                }
                IOp::NewUnevaluated(x) => {
                    a.push(Individual::new_unevaluated(x.clone()));
                    ma.push((x.clone(), None));
                }
                IOp::Evaluate(i) if *i < a.len() => {
                    a[*i].evaluate_with(|s| obj(f(&p, s)));
                    ma[*i].1 = Some(f(&p, &ma[*i].0));
                }
                IOp::EvaluateOther(i) if *i < a.len() => {
                    a[*i].evaluate_with(|s| obj(f(&p, s) * 0.5 + 3.0));
                    ma[*i].1 = Some(f(&p, &ma[*i].0) * 0.5 + 3.0);
                }
                IOp::SetObjective(i) if *i < a.len() => {
                    let v = f(&p, &ma[*i].0);
                    let was = a[*i].set_objective(obj(v));
                    if was != ma[*i].1.is_some() {
                        note = Some(format!("set_objective reported was-evaluated = {was}, the individual was {}", if ma[*i].1.is_some() { "evaluated" } else { "unevaluated" }));
                    }
                    ma[*i].1 = Some(v);
                }
                IOp::Write(i, d, v) if *i < a.len() && *d < ma[*i].0.len() => {
                    a[*i].solution_mut()[*d] = *v;
                    ma[*i].0[*d] = *v;
                    ma[*i].1 = None;
                }
                IOp::TouchMut(i) if *i < a.len() => {
                    let _ = a[*i].solution_mut();
                    ma[*i].1 = None;
                }
                IOp::Clone(i) if *i < a.len() => {
                    let cl = a[*i].clone();
                    a.push(cl);
                    let m = ma[*i].clone();
                    ma.push(m);
                }
                IOp::CloneFrom(i, j) if *i < a.len() && *j < a.len() && i != j => {
                    if ma[*i].1.is_some() && ma[*j].1.is_none() {
                        copies_into_evaluated += 1;
                    }
                    let src = a[*j].clone();
                    a[*i].clone_from(&src);
                    ma[*i] = ma[*j].clone();
                }
                IOp::VecCloneFrom => {
                    for t in 0..ma.len().min(mb.len()) {
                        if mb[t].1.is_some() && ma[t].1.is_none() {
                            copies_into_evaluated += 1;
                        }
                    }
                    b.clone_from(&a);
                    mb = ma.clone();
                }
                IOp::CloneFromSlice(n) => {
                    let n = (*n).min(a.len()).min(b.len());
                    for t in 0..n {
                        if ma[t].1.is_some() && mb[t].1.is_none() {
                            copies_into_evaluated += 1;
                        }
                    }
                    a[..n].clone_from_slice(&b[..n]);
                    ma[..n].clone_from_slice(&mb[..n]);
                }
                IOp::OptionCloneFrom(i, j) if *i < a.len() && *j < a.len() => {
                    let mut o = Some(a[*i].clone());
                    let src = Some(a[*j].clone());
                    if ma[*i].1.is_some() && ma[*j].1.is_none() {
                        copies_into_evaluated += 1;
                    }
                    o.clone_from(&src);
                    a[*i] = o.unwrap();
                    ma[*i] = ma[*j].clone();
                }
                IOp::Move(i) if *i < a.len() => {
                    let x = a.remove(*i);
                    b.push(x);
                    let m = ma.remove(*i);
                    mb.push(m);
                }
                IOp::AsSolutionsMut => {
                    let _ = b.as_solutions_mut();
                    for m in mb.iter_mut() {
                        m.1 = None;
                    }
                }
                IOp::Rebuild => {
                    let sols: Vec<Vec<f64>> = std::mem::take(&mut b).into_solutions();
                    b = sols.into_individuals::<RealP>();
                    for m in mb.iter_mut() {
                        m.1 = None;
                    }
                }
                IOp::Swap => {
                    std::mem::swap(&mut a, &mut b);
                    std::mem::swap(&mut ma, &mut mb);
                }
                _ => {}
            }
            // audit both collections against the model
            for (name, real, model) in [("a", &a, &ma), ("b", &b, &mb)] {
                if note.is_some() {
                    break;
                }
                if real.len() != model.len() {
                    note = Some(format!("collection {name} has {} individuals, the model {}", real.len(), model.len()));
                    break;
                }
                for (t, (ind, m)) in real.iter().zip(model.iter()).enumerate() {
                    let got = ind.get_objective().map(|o| o.value());
                    if ind.solution() != &m.0 || got.map(f64::to_bits) != m.1.map(f64::to_bits) || ind.is_evaluated() != m.1.is_some() {
                        note = Some(format!(
                            "{name}[{t}] is (solution {:?}, objective {got:?}); expected (solution {:?}, objective {:?}); F(solution) = {}",
                            ind.solution(),
                            m.0,
                            m.1,
                            f(&p, ind.solution())
                        ));
                        break;
                    }
                }
            }
            if let Some(n) = note {
                let kind = format!("{op:?}");
                let kind = kind.split('(').next().unwrap_or("").to_string();
                out.violation = Some((
                    Violation::new(format!("individual-model-mismatch after={kind}"), format!("after op #{k} {op:?}: {n}")),
                    ICase { ops: c.ops[..=k].to_vec() },
                ));
                break;
            }
        }
        bump(&mut out.counters, "probe:copy of an unevaluated individual into an evaluated one", copies_into_evaluated);
        if c.ops.len() >= 3 {
            out.fingerprints.push(fp.0);
        }
        out
    }

    fn shrink(&self, c: &ICase) -> Vec<ICase> {
        (0..c.ops.len())
            .map(|i| {
                let mut v = c.ops.clone();
                v.remove(i);
                ICase { ops: v }
            })
            .collect()
    }
}
