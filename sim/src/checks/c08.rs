//! C08 — same seed, same run: independent of evaluator, workers, scheduling and cloning.

use crate::framework::*;
use crate::par::*;
use crate::rng::{self, Fp, SimRng};
use crate::tw::run::*;
use crate::tw::templates::*;
use mahf::Random;
use rand::RngCore;
use serde::{Deserialize, Serialize};
use std::sync::Arc;

#[derive(Clone, Debug, Serialize, Deserialize)]
pub struct SvpCase {
    pub case: TCase,
    pub scheds: Vec<SchedSpec>,
}

/// Sequential vs parallel evaluator under seeded schedules. `prop` selects what is reported:
/// "C08" = digest equality; "C05"/"C06" = the step monitors of the parallel runs.
pub struct SeqVsPar {
    pub prop: &'static str,
    pub name: &'static str,
    /// only the evaluation of large prepared mixed populations (40..100 individuals over >= 6
    /// bits: dozens of distinct solutions and of duplicates in flight at once)
    pub mix: bool,
}

fn digest_diff(a: &Digest, b: &Digest) -> Option<&'static str> {
    if a.populations != b.populations {
        Some("population-stack")
    } else if a.best != b.best {
        Some("best-individual")
    } else if a.evaluations != b.evaluations {
        Some("evaluations")
    } else if a.iterations != b.iterations {
        Some("iterations")
    } else if a.log != b.log {
        Some("log")
    } else if a.next_random_word != b.next_random_word {
        Some("random-stream-position")
    } else if a.rng_config != b.rng_config {
        Some("generator-identity")
    } else if a.measures != b.measures {
        Some("measured-state")
    } else {
        None
    }
}

impl World for SeqVsPar {
    type Case = SvpCase;
    fn name(&self) -> &'static str {
        self.name
    }
    fn generate(&self, run_seed: u64, tier: Tier) -> SvpCase {
        let mut g = rng::stream(run_seed, "workload");
        // C08 compares the shipped templates; the step monitors of C05/C06 also see the harness
        // assemblies (archives, operator variants, prepared mixed populations)
        let kind = if self.prop == "C08" && g.chance(0.03) {
            Kind::BigInit
        } else if self.prop == "C08" && g.chance(0.06) {
            Kind::Measures
        } else if self.prop == "C18" {
            Kind::Pso
        } else if self.prop == "C08" || self.prop == "C16" { *g.pick(&SHIPPED) } else { *g.pick(&crate::checks::tworld::all_kinds()) };
        let kind = if self.mix { Kind::EvalMix } else { kind };
        let opts = GenOpts { penalty: g.chance(0.3), max_iters: tier.pick(6, 15), evaluations_term: self.prop != "C16", log: true };
        let mut case = gen_case(&mut g, kind, &opts);
        if self.mix {
            case.params.insert("mix_max".into(), (60 + g.below(100)) as f64);
            if let ProblemSpec::Bin(b) = &mut case.problem {
                b.dim = 6 + g.below(5);
            }
            case.term = Term::Iterations(1 + g.below(3) as u32);
        }
        let mut sg = rng::stream(run_seed, "schedule");
        let n = tier.pick(3, 8);
        let scheds = (0..n).map(|_| gen_sched(&mut sg)).collect();
        SvpCase { case, scheds }
    }
    fn execute(&self, c: &SvpCase) -> Outcome<SvpCase> {
        let mut out = Outcome::new();
        let case = Arc::new(c.case.clone());
        let seq = run_sequential(&case);
        out.evaluations += 1;
        out.steps += seq.steps;
        if let RunResult::BuildErr(e) = &seq.result {
            eprintln!("harness error: template constructor rejected generated parameters ({:?}): {e}", case.kind);
            std::process::exit(2);
        }
        if self.prop == "C08" {
            // (B) a clone of the configuration behaves identically
            let cloned = Arc::new(TCase { clone_config: !case.clone_config, ..(*case).clone() });
            let rep = run_sequential(&cloned);
            out.evaluations += 1;
            bump(&mut out.counters, "runs through a cloned configuration", 1);
            if let Some(what) = digest_diff(&seq.digest, &rep.digest) {
                out.violation = Some((
                    Violation::new(format!("clone-differs in={what}"), format!("{}: a clone of the configuration ends in a different {what}", case.kind.name())),
                    SvpCase { case: c.case.clone(), scheds: vec![] },
                ));
                return out;
            }
        }
        for s in &c.scheds {
            let (par, hash, sched_steps, switches) = run_parallel(&case, *s);
            out.evaluations += 1;
            out.steps += par.steps + sched_steps;
            bump(&mut out.counters, "fault:schedule (non-default interleavings explored)", 1);
            bump(&mut out.counters, "scheduler steps", sched_steps);
            bump(&mut out.counters, "context switches", switches);
            if let Some(n) = par.counters.get("fault:worker-stalled") {
                bump(&mut out.counters, "fault:worker-stalled (descheduled for 20..400 scheduling points)", *n);
            }
            for (k, v) in &par.counters {
                if k.starts_with("probe:") {
                    bump(&mut out.counters, k, *v);
                }
            }
            bump(&mut out.counters, &format!("parallel runs with {} workers", s.workers), 1);
            if par.max_inflight >= 2 {
                bump(&mut out.counters, "probe:runs with >= 2 objective calls in flight", 1);
            }
            bump(&mut out.counters, "max:objective calls in flight at once", par.max_inflight as u64);
            let mut fp = Fp::new();
            fp.u64(seq.fingerprint);
            fp.u64(hash);
            if par.calls > 0 {
                out.fingerprints.push(fp.0);
            }
            let one = |c: &SvpCase| SvpCase { case: c.case.clone(), scheds: vec![*s] };
            if self.prop == "C08" {
                if par.result != seq.result {
                    out.violation = Some((
                        Violation::new("parallel-result-differs", format!("{} with {s:?} (schedule #{hash:x}): sequential run {:?}, parallel run {:?}", case.kind.name(), seq.result, par.result)),
                        one(c),
                    ));
                    return out;
                }
                if let Some(what) = digest_diff(&seq.digest, &par.digest) {
                    out.violation = Some((
                        Violation::new(format!("parallel-differs in={what}"), format!("{} with {s:?} (schedule #{hash:x}): the parallel run ends in a different {what} than the sequential run with the same seed", case.kind.name())),
                        one(c),
                    ));
                    return out;
                }
            } else if let Some((_, v)) = par.violations.iter().find(|(p, _)| *p == self.prop) {
                out.violation = Some((Violation::new(format!("parallel {}", v.class), format!("with {s:?} (schedule #{hash:x}): {}", v.message)), one(c)));
                return out;
            } else if let (RunResult::Panic(p), false) = (&par.result, matches!(seq.result, RunResult::Panic(_))) {
                // a panic inside the simulated pool never reaches the run's own monitors
                out.violation = Some((
                    Violation::new(format!("parallel run-panicked template={}", case.kind.name()), format!("{} with {s:?} (schedule #{hash:x}): the run with the parallel evaluator panicked ({p}); the sequential run with the same seed did not", case.kind.name())),
                    one(c),
                ));
                return out;
            }
        }
        out
    }
    fn shrink(&self, c: &SvpCase) -> Vec<SvpCase> {
        let mut v: Vec<SvpCase> = shrink_case(&c.case).into_iter().map(|case| SvpCase { case, scheds: c.scheds.clone() }).collect();
        for s in &c.scheds {
            if s.workers > 2 {
                v.push(SvpCase { case: c.case.clone(), scheds: vec![SchedSpec { workers: 2, ..*s }] });
            }
        }
        v
    }
}

// ---------------------------------------------------------------------------------------------
// history independence: the same (configuration, problem, seed) gives the same run whatever ran
// before it on this OS thread - the reference is the run on a fresh OS thread (no thread-local
// history), the candidate runs after a run of the same configuration on a sibling instance that
// has the same name and size

pub struct HistoryIndependence;

fn sibling_spec(p: &ProblemSpec) -> ProblemSpec {
    use crate::tw::problems::*;
    match p {
        ProblemSpec::Real(s) => ProblemSpec::Real(RealP::new(s.clone()).sibling().spec.clone()),
        ProblemSpec::Bin(s) => ProblemSpec::Bin(BinP::new(s.clone()).sibling().spec.clone()),
        ProblemSpec::Tsp(s) => ProblemSpec::Tsp(TspP::new(s.clone()).sibling().spec.clone()),
    }
}

impl World for HistoryIndependence {
    type Case = TCase;
    fn name(&self) -> &'static str {
        "history-independence"
    }
    fn generate(&self, run_seed: u64, tier: Tier) -> TCase {
        let mut g = rng::stream(run_seed, "workload");
        let kind = *g.pick(&SHIPPED);
        let opts = GenOpts { penalty: false, max_iters: tier.pick(6, 15), evaluations_term: false, log: true };
        gen_case(&mut g, kind, &opts)
    }
    fn execute(&self, c: &TCase) -> Outcome<TCase> {
        let mut out = Outcome::new();
        let case = Arc::new(c.clone());
        // reference: a fresh OS thread has no thread-local history
        let fresh = {
            let case = case.clone();
            std::thread::spawn(move || {
                let r = run_sequential(&case);
                let _ = std::fs::remove_dir_all(crate::simio::scratch_dir());
                r
            })
            .join()
        };
        let Ok(fresh) = fresh else {
            eprintln!("harness error: reference run on a fresh thread panicked outside its guards");
            std::process::exit(2);
        };
        if let RunResult::BuildErr(e) = &fresh.result {
            eprintln!("harness error: template constructor rejected generated parameters ({:?}): {e}", case.kind);
            std::process::exit(2);
        }
        // this thread: first the sibling instance (same name, same size, other data) ...
        let prior = Arc::new(TCase { problem: sibling_spec(&c.problem), ..c.clone() });
        let before = run_sequential(&prior);
        // ... then the case itself
        let again = run_sequential(&case);
        out.evaluations = 3;
        out.steps = fresh.steps + before.steps + again.steps;
        bump(&mut out.counters, "fault:earlier run of the same configuration on a same-named sibling instance on this thread", 1);
        let mut fp = Fp::new();
        fp.u64(fresh.fingerprint);
        if fresh.calls > 0 {
            out.fingerprints.push(fp.0);
        }
        if fresh.result != again.result {
            out.violation = Some((Violation::new("run-depends-on-thread-history in=result", format!("{}: on a fresh thread {:?}, after a run on a same-named sibling instance {:?}", case.kind.name(), fresh.result, again.result)), c.clone()));
        } else if let Some(what) = digest_diff(&fresh.digest, &again.digest) {
            out.violation = Some((
                Violation::new(format!("run-depends-on-thread-history in={what}"), format!("{}: the run on a fresh thread and the run after an earlier run on a same-named sibling instance (same configuration, same seed) end in a different {what}", case.kind.name())),
                c.clone(),
            ));
        }
        out
    }
    fn shrink(&self, c: &TCase) -> Vec<TCase> {
        shrink_case(c)
    }
}

// ---------------------------------------------------------------------------------------------
// generators: children are a function of the seed; a supplied generator is never replaced

#[derive(Clone, Debug, Serialize, Deserialize)]
pub struct RngCase {
    pub seed: u64,
    pub other: u64,
    pub n: usize,
    pub kind: Kind,
    pub params: TCase,
}

pub struct Generators;

/// A user-supplied generator type that is not mahf's default.
struct UserRng(rand_chacha::ChaCha8Rng);
impl RngCore for UserRng {
    fn next_u32(&mut self) -> u32 {
        self.0.next_u32()
    }
    fn next_u64(&mut self) -> u64 {
        self.0.next_u64()
    }
    fn fill_bytes(&mut self, d: &mut [u8]) {
        self.0.fill_bytes(d)
    }
    fn try_fill_bytes(&mut self, d: &mut [u8]) -> Result<(), rand::Error> {
        self.0.try_fill_bytes(d)
    }
}
impl rand::SeedableRng for UserRng {
    type Seed = <rand_chacha::ChaCha8Rng as rand::SeedableRng>::Seed;
    fn from_seed(seed: Self::Seed) -> Self {
        UserRng(rand_chacha::ChaCha8Rng::from_seed(seed))
    }
}

fn child_words(mut r: Random, n: usize) -> Vec<(String, u64, u64)> {
    r.iter_children()
        .take(n)
        .map(|mut c| {
            let cfg = c.config().clone();
            (cfg.name.to_string(), cfg.seed, c.next_u64())
        })
        .collect()
}

impl World for Generators {
    type Case = RngCase;
    fn name(&self) -> &'static str {
        "generators"
    }
    fn generate(&self, run_seed: u64, _tier: Tier) -> RngCase {
        let mut g = rng::stream(run_seed, "workload");
        let kind = *g.pick(&[Kind::RealGa, Kind::Es, Kind::Pso, Kind::RealRs, Kind::BinaryGa, Kind::PermRs]);
        let opts = GenOpts { penalty: false, max_iters: 5, evaluations_term: false, log: true };
        let params = gen_case(&mut g, kind, &opts);
        // small seeds (0, 1, 2, ... are what experiments and tests use) next to arbitrary ones
        let seed = if g.chance(0.3) { g.below(4) as u64 } else { g.u64() };
        let other = if seed < 4 && g.chance(0.7) { seed ^ 1 } else { seed ^ (1 << g.below(64)) };
        RngCase { seed, other, n: 1 + g.below(6), kind, params }
    }
    fn execute(&self, c: &RngCase) -> Outcome<RngCase> {
        use crate::tw::problems::*;
        let mut out = Outcome::new();
        out.evaluations = 1;
        out.steps = c.n as u64;
        let mut fp = Fp::new();
        fp.u64(c.seed);
        out.fingerprints.push(fp.0);
        let mut bad: Option<Violation> = None;
        // (C) children derived from a seeded generator are a deterministic function of the seed
        let a = child_words(Random::new(c.seed), c.n);
        let b = child_words(Random::new(c.seed), c.n);
        let o = child_words(Random::new(c.other), c.n);
        if a != b {
            bad = Some(Violation::new("children-not-deterministic", format!("seed {}: two derivations of {} children differ", c.seed, c.n)));
        } else if a.first().map(|x| x.2) == o.first().map(|x| x.2) && a.first().map(|x| x.1) == o.first().map(|x| x.1) {
            bad = Some(Violation::new("different-seeds-same-stream", format!("seeds {} and {} give the same first child", c.seed, c.other)));
        } else if Random::new(c.seed).next_u64() == Random::new(c.other).next_u64() {
            bad = Some(Violation::new("different-seeds-same-stream", format!("seeds {} and {} give the same first word", c.seed, c.other)));
        }
        // children of a user-supplied backend use that backend
        let u = child_words(Random::with_rng::<UserRng>(c.seed), c.n);
        if bad.is_none() && u.iter().any(|(name, _, _)| !name.contains("UserRng")) {
            bad = Some(Violation::new("child-backend-replaced", format!("children of a generator with backend UserRng report backends {:?}", u.iter().map(|x| x.0.clone()).collect::<Vec<_>>())));
        }
        // (D) optimize_with keeps the supplied generator
        if bad.is_none() {
            let run = |seed: u64| -> Result<(Digest, usize), String> {
                let case = &c.params;
                let res = match (&case.problem, case.kind.family()) {
                    (ProblemSpec::Real(spec), Family::Real) => supplied::<RealP>(case, RealP::new(spec.clone()), build_real::<RealP>, seed),
                    (ProblemSpec::Bin(spec), Family::Bin) => supplied::<BinP>(case, BinP::new(spec.clone()), build_bin::<BinP>, seed),
                    (ProblemSpec::Tsp(spec), _) => supplied::<TspP>(case, TspP::new(spec.clone()), build_perm::<TspP>, seed),
                    _ => Err("family".into()),
                };
                res
            };
            match (run(c.seed), run(c.seed)) {
                (Ok((d1, calls)), Ok((d2, _))) => {
                    out.steps += calls as u64;
                    bump(&mut out.counters, "probe:optimize_with runs with a supplied non-default generator", 2);
                    if d1.rng_config != Some((std::any::type_name::<UserRng>().to_string(), c.seed)) {
                        bad = Some(Violation::new("supplied-generator-replaced", format!("after optimize_with the state's generator is {:?}, supplied was (UserRng, {})", d1.rng_config, c.seed)));
                    } else if let Some(what) = digest_diff(&d1, &d2) {
                        bad = Some(Violation::new(format!("supplied-generator-run-not-repeatable in={what}"), format!("two optimize_with runs with the same supplied generator differ in {what}")));
                    }
                }
                (Err(e), _) | (_, Err(e)) => bad = Some(Violation::new("optimize-with-failed", e)),
            }
        }
        if let Some(v) = bad {
            out.violation = Some((v, c.clone()));
        }
        out
    }
}

fn supplied<P: crate::tw::problems::HProblem>(
    case: &TCase,
    problem: P,
    build: impl Fn(&TCase, Box<dyn mahf::Condition<P>>) -> mahf::ExecResult<mahf::Configuration<P>>,
    seed: u64,
) -> Result<(Digest, usize), String> {
    let (cond, _, _) = termination::<P>(case.term);
    let config = build(case, cond).map_err(|e| format!("{e:#}"))?;
    let r = guarded(|| {
        config.optimize_with(&problem, |state| {
            state.insert_evaluator(mahf::problems::Sequential::<P>::new());
            // three ways a caller supplies its generator: insert, insert-if-absent, entry API
            match seed % 3 {
                0 => {
                    state.insert(Random::with_rng::<UserRng>(seed));
                }
                1 => {
                    if !state.contains::<Random>() {
                        state.insert(Random::with_rng::<UserRng>(seed));
                    }
                }
                _ => {
                    state.entry::<Random>().or_insert_with(|| Random::with_rng::<UserRng>(seed));
                }
            }
            Ok(())
        })
    });
    match r {
        Ok(Ok(state)) => Ok((digest_of(&state, "supplied"), problem.instr().n_calls())),
        Ok(Err(e)) => Err(format!("{e:#}")),
        Err(p) => Err(format!("panic: {p}")),
    }
}

pub fn run(tier: Tier, seed: u64, known: &KnownFindings) -> CheckReport {
    let mk = |batch: &'static str, runs: u64| BatchConfig { check_id: "C08", batch, base_seed: seed, tier, runs, threads: threads(), known, samples: 1 };
    let b1 = run_batch(&SeqVsPar { prop: "C08", name: "seq-vs-par", mix: false }, &mk("sequential-vs-parallel", tier.pick(2_000, 80_000)));
    let b2 = run_batch(&Generators, &mk("generators", tier.pick(20_000, 300_000)));
    let b4 = run_batch(&HistoryIndependence, &mk("history-independence", tier.pick(3_000, 100_000)));
    let b3 = {
        // par_experiment prints a line per call
        let _quiet = StdoutSilencer::new();
        run_batch(&crate::checks::experiment::Experiment { prop: "C08" }, &mk("par-experiment", tier.pick(5_000, 150_000)))
    };
    CheckReport {
        property_id: "C08".into(),
        tier,
        seed,
        level: "exploration",
        rule: "history-independence: one case = a shipped template run (a) on a fresh OS thread and (b) on the harness thread right after a run of the same configuration on a sibling instance with the same name and size (renumbered, rescaled data): same seed, same digest - a run is not a function of what the thread or process did before. sequential-vs-parallel: one case = (template, parameters, instance, seed) run with the sequential evaluator, through a cloned configuration, and with problems::evaluate::Parallel on 1/2/3/4/8 simulated workers under 3..8 seeded schedules (uniform-random, sticky and PCT schedulers; the hand-out order of individuals is part of the schedule); the digest (population stack with solution bits and objectives, best individual, evaluation and iteration counters, decoded log, next word of the state's generator) must be identical; non-trivial = the parallel run made objective calls; distinct = distinct (workload, recorded schedule) pairs. generators: children of a seeded generator are a function of the seed, other seeds give other streams, children keep the parent's backend, optimize_with keeps a supplied non-default generator and is repeatable. par-experiment: par_experiment with <= 6 runs x <= 3 problems on simulated workers under seeded schedules: every (run, problem) digest and every decoded log file equals the run executed alone with Random::new(run); configuration.ron equals to_ron; the file set is exact".into(),
        assumptions: vec![
            "rayon's work-stealing scheduler is replaced by the simulated pool (shims/rayon); interleavings are explored at objective-call, queue and I/O granularity (DESIGN.md section 2.3)".into(),
            "a seeded schedule is replayed by re-running the same scheduler seed; the recorded sequence of task ids is hashed into the violation message so a replay shows it took the same schedule".into(),
        ],
        real_components: vec!["mahf::problems::evaluate::{Sequential, Parallel}, mahf::experiments::par_experiment, mahf::state::random::Random, Configuration::{run, optimize_with, clone}".into(), "all template components".into()],
        stubbed_components: vec!["rayon (simulated worker pool on shuttle threads)".into(), "indicatif (inert)".into(), "the disk's failure behaviour in the par-experiment batch (SimDisk fault layer in front of real scratch files)".into()],
        batches: vec![b1, b2, b3, b4],
        extra: Default::default(),
    }
}
