//! Prepared-state worlds: single chemical reactions executed on hand-built three-population stacks
//! so that every outcome (accepted, rejected, buffer-assisted; second reactant before the first;
//! equal individuals; empty buffer) is hit directly (C20).

use crate::framework::*;
use crate::rng::{self, Fp, SimRng};
use crate::tw::observer::*;
use crate::tw::problems::*;
use crate::tw::templates::*;
use mahf::components::misc::cro::*;
use mahf::state::common::Populations;
use mahf::{Component, Individual, Random, SingleObjective, State};
use serde::{Deserialize, Serialize};
use std::sync::{Arc, Mutex};

#[derive(Clone, Debug, Serialize, Deserialize)]
pub struct ReactionCase {
    /// 0 on-wall, 1 decomposition, 2 inter-molecular, 3 synthesis
    pub reaction: u8,
    /// (coordinate, objective value, kinetic energy) of every molecule of the main population
    pub molecules: Vec<(f64, f64, f64)>,
    /// indices of the reactants in the main population
    pub reactants: Vec<usize>,
    /// (coordinate, objective value) of the products
    pub products: Vec<(f64, f64)>,
    pub buffer: f64,
    pub lr: f64,
    pub seed: u64,
}

pub struct Reactions;

fn ind(x: f64, f: f64) -> Individual<RealP> {
    Individual::new(vec![x], SingleObjective::try_from(f).expect("harness: valid objective"))
}

impl World for Reactions {
    type Case = ReactionCase;
    fn name(&self) -> &'static str {
        "prepared-reactions"
    }
    fn generate(&self, run_seed: u64, _tier: Tier) -> ReactionCase {
        let mut g = rng::stream(run_seed, "workload");
        let reaction = g.below(4) as u8;
        let n = match reaction {
            0 | 1 => 1 + g.below(5),
            _ => 2 + g.below(5),
        };
        // objective values are not assumed non-negative: a third of the cases use a grid with
        // negative values (the energy ledger and the sign rule for kinetic energy do not care)
        let negative = g.chance(0.33);
        let grid: &[f64] = if negative { &[-40.0, -10.0, -4.0, -1.0, 0.0, 0.5, 2.0, 10.0] } else { &[0.0, 0.5, 1.0, 2.0, 10.0, 37.5] };
        let ke = [0.0, 0.1, 1.0, 5.0, 50.0];
        let mut molecules: Vec<(f64, f64, f64)> = (0..n).map(|i| (i as f64, *g.pick(grid), *g.pick(&ke))).collect();
        // equal individuals (same solution and objective) are different molecules
        if n >= 2 && g.chance(0.3) {
            let (a, b) = (g.below(n), g.below(n));
            if a != b {
                molecules[b].0 = molecules[a].0;
                molecules[b].1 = molecules[a].1;
            }
        }
        // ... and so are individuals with the same solution but different objective values (a
        // noisy or stateful objective function): a molecule is identified by the whole individual
        if n >= 2 && g.chance(0.3) {
            let (a, b) = (g.below(n), g.below(n));
            if a != b && molecules[a].1 != molecules[b].1 {
                molecules[b].0 = molecules[a].0;
            }
        }
        let reactants: Vec<usize> = match reaction {
            0 | 1 => vec![g.below(n)],
            _ => {
                let a = g.below(n);
                let mut b = g.below(n);
                while b == a {
                    b = g.below(n);
                }
                vec![a, b]
            }
        };
        let n_products = match reaction {
            0 | 3 => 1,
            _ => 2,
        };
        // product energies around the reactants' total so that every outcome occurs
        let total: f64 = reactants.iter().map(|&i| molecules[i].1 + molecules[i].2).sum();
        let products = (0..n_products)
            .map(|k| {
                let f = match g.below(5) {
                    0 => 0.0,
                    1 => total / n_products as f64,
                    2 => total / n_products as f64 + *g.pick(&[1e-9, 0.25, 3.0]),
                    3 => {
                        let f = total / n_products as f64 - *g.pick(&[1e-9, 0.25, 3.0]);
                        if negative { f } else { f.max(0.0) }
                    }
                    _ => *g.pick(grid),
                };
                (100.0 + k as f64, f)
            })
            .collect();
        let mut c = ReactionCase { reaction, molecules, reactants, products, buffer: *g.pick(&[0.0, 0.01, 1.0, 100.0]), lr: g.f64_in(0.0, 0.99), seed: g.u64() };
        // the unit energies are measured in is arbitrary: a quarter of the cases use tiny or huge
        // units (every energy, surplus and share is then far below f64::EPSILON, or far above 1)
        if g.chance(0.25) {
            let unit = *g.pick(&[1e-20, 1e-17, 1e-12, 1e15]);
            for m in c.molecules.iter_mut() {
                m.1 *= unit;
                m.2 *= unit;
            }
            for p in c.products.iter_mut() {
                p.1 *= unit;
            }
            c.buffer *= unit;
        }
        c
    }

    fn execute(&self, c: &ReactionCase) -> Outcome<ReactionCase> {
        let mut out = Outcome::new();
        out.evaluations = 1;
        out.steps = 1;
        let problem = RealP::new(RealSpec { kind: RealKind::Sphere, dim: 1, lo: -1000.0, hi: 1000.0, penalty: None, name: "prepared".into(), scale: 1.0 });
        let mut state: State<RealP> = State::new();
        let mut pops = Populations::<RealP>::new();
        pops.push(c.molecules.iter().map(|(x, f, _)| ind(*x, *f)).collect());
        pops.push(c.reactants.iter().map(|&i| ind(c.molecules[i].0, c.molecules[i].1)).collect());
        pops.push(c.products.iter().map(|(x, f)| ind(*x, *f)).collect());
        state.insert(pops);
        state.insert(ChemicalReaction::<RealP>(c.molecules.iter().map(|(x, f, ke)| Molecule::new(*ke, ind(*x, *f))).collect()));
        state.insert(EnergyBuffer(c.buffer));
        state.insert(Random::with_rng::<SimRng>(c.seed));
        let (kind, comp): (&str, Box<dyn Component<RealP>>) = match c.reaction {
            0 => ("OnWallIneffectiveCollisionUpdate", OnWallIneffectiveCollisionUpdate::new(c.lr)),
            1 => ("DecompositionUpdate", DecompositionUpdate::new()),
            2 => ("IntermolecularIneffectiveCollisionUpdate", IntermolecularIneffectiveCollisionUpdate::new()),
            _ => ("SynthesisUpdate", SynthesisUpdate::new()),
        };
        let tcase = Arc::new(TCase {
            kind: Kind::Cro,
            params: Default::default(),
            problem: ProblemSpec::Real(problem.spec.clone()),
            term: Term::Iterations(0),
            seed: c.seed,
            evaluator: EvalMode::Sequential,
            fault: TFault::None,
            log: false,
            clone_config: false,
            stale_state: false,
            nest: 0,
        });
        let data = Arc::new(Mutex::new(ObsData::default()));
        let mut obs = Obs::<RealP>::new(tcase, data);
        let pre = obs.snapshot_pre(kind, &problem, &state);
        let r = guarded(|| comp.execute(&problem, &mut state));
        let mut d = ObsData::default();
        let mut fp = Fp::new();
        fp.str(&format!("{c:?}"));
        out.fingerprints.push(fp.0);
        let dup = c.reactants.len() == 2 && (c.molecules[c.reactants[0]].0, c.molecules[c.reactants[0]].1) == (c.molecules[c.reactants[1]].0, c.molecules[c.reactants[1]].1);
        if dup {
            bump(&mut out.counters, "probe:two equal individuals as reactants", 1);
        }
        if c.reactants.len() == 2 && c.reactants[1] < c.reactants[0] {
            bump(&mut out.counters, "probe:second reactant precedes the first", 1);
        }
        if c.buffer == 0.0 && c.reaction == 1 {
            bump(&mut out.counters, "probe:decomposition with an empty buffer", 1);
        }
        match r {
            Ok(Ok(())) => {
                obs.post(kind, pre, &problem, &state, &mut d);
                for (k, v) in &d.counters {
                    bump(&mut out.counters, k, *v);
                }
                if let Some((_, v)) = d.violations.iter().find(|(p, _)| *p == "C20") {
                    out.violation = Some((Violation::new(format!("prepared {}", v.class), v.message.clone()), c.clone()));
                }
            }
            Ok(Err(e)) => {
                out.violation = Some((Violation::new(format!("prepared reaction-failed reaction={kind}"), format!("{kind} on a valid three-population stack failed: {e:#}")), c.clone()));
            }
            Err(p) => {
                out.violation = Some((Violation::new(format!("prepared reaction-panicked reaction={kind}"), format!("{kind} panicked: {p}")), c.clone()));
            }
        }
        out
    }

    fn shrink(&self, c: &ReactionCase) -> Vec<ReactionCase> {
        let mut v = Vec::new();
        // drop an uninvolved molecule
        for i in (0..c.molecules.len()).rev() {
            if !c.reactants.contains(&i) {
                let mut m = c.molecules.clone();
                m.remove(i);
                let reactants = c.reactants.iter().map(|&r| if r > i { r - 1 } else { r }).collect();
                v.push(ReactionCase { molecules: m, reactants, ..c.clone() });
            }
        }
        v
    }
}
