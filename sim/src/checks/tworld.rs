//! Template-world checks (C05, C06, C07, C16, C18, C19, C20): every shipped template over
//! swarm-style randomised valid parameters, observed after every component execution.

use crate::framework::*;
use crate::rng::{self};
use crate::tw::run::*;
use crate::tw::templates::*;
use std::sync::Arc;

#[derive(Clone, Copy, PartialEq)]
pub enum FaultMix {
    None,
    /// missing / wrongly identified evaluator in a fraction of the runs
    Evaluator,
    /// a rare legal draw (0 or the largest value) forced at a random position
    ExtremeDraw,
    StepFail,
    /// (PSO) the population is resized behind the swarm state in a fraction of the runs
    SwarmResize,
}

pub struct TemplateWorld {
    pub prop: &'static str,
    pub world_name: &'static str,
    pub kinds: Vec<Kind>,
    pub penalty: f64,
    pub faults: FaultMix,
    pub max_iters: (u32, u32),
    pub evaluations_term: bool,
    pub log: bool,
    /// step kinds at least one of which must have executed for the run to count as non-trivial
    pub key_steps: &'static [&'static str],
    /// some runs terminate on `evaluations(e) | iterations(n)` instead of `iterations(n)`
    pub compound_term: bool,
}

impl World for TemplateWorld {
    type Case = TCase;
    fn name(&self) -> &'static str {
        self.world_name
    }

    fn generate(&self, run_seed: u64, tier: Tier) -> TCase {
        let mut g = rng::stream(run_seed, "workload");
        let kind = *g.pick(&self.kinds);
        let penalty = g.chance(self.penalty);
        let opts = GenOpts { penalty, max_iters: tier.pick(self.max_iters.0, self.max_iters.1), evaluations_term: self.evaluations_term, log: self.log };
        let mut case = gen_case(&mut g, kind, &opts);
        if self.compound_term && g.chance(0.15) {
            if let (Term::Iterations(n), Some(np)) = (case.term, case.params.get("num_particles")) {
                // a compound loop condition whose second operand drives the iteration progress;
                // the evaluation budget is used up within the n passes ((k+1) * particles
                // evaluations after pass k), so the progress stays within [0, 1]
                if n >= 1 {
                    case.term = Term::Either { evals: g.below(n as usize * *np as usize + 1) as u32, iters: n };
                }
            }
        }
        let mut fg = rng::stream(run_seed, "faults");
        case.clone_config = fg.chance(0.1);
        case.stale_state = fg.chance(0.15);
        if fg.chance(0.1) {
            case.nest = 1 + fg.below(2) as u8;
        }
        match self.faults {
            FaultMix::None => {}
            FaultMix::Evaluator => {
                if fg.chance(0.15) {
                    case.fault = if fg.chance(0.5) { TFault::NoEvaluator } else { TFault::WrongEvaluatorId };
                }
            }
            FaultMix::ExtremeDraw => {
                if fg.chance(0.7) {
                    case.fault = TFault::ExtremeDraw { at: fg.below(400) as u64, max: fg.chance(0.5) };
                }
            }
            FaultMix::SwarmResize => {
                if fg.chance(0.2) {
                    let iters = match case.term { Term::Iterations(n) | Term::Either { iters: n, .. } => n, Term::Evaluations(_) => 4 };
                    case.fault = TFault::SwarmResize { at_iter: fg.below(iters.max(1) as usize) as u32, grow: fg.chance(0.4), first: fg.chance(0.5) };
                }
            }
            FaultMix::StepFail => {
                if fg.chance(0.5) {
                    case.fault = TFault::StepFail(fg.below(60) as u32);
                }
            }
        }
        case
    }

    fn execute(&self, case: &TCase) -> Outcome<TCase> {
        let mut out = Outcome::new();
        out.evaluations = 1;
        let case = Arc::new(case.clone());
        let rep = run_sequential(&case);
        out.steps = rep.steps;
        for (k, v) in &rep.counters {
            bump(&mut out.counters, k, *v);
        }
        bump(&mut out.counters, &format!("runs of {}", case.kind.name()), 1);
        if let RunResult::BuildErr(e) = &rep.result {
            // the constructor refused the parameters: a generator problem, not a finding
            eprintln!("harness error: template constructor rejected generated parameters ({:?}): {e}", case.kind);
            std::process::exit(2);
        }
        let nontrivial = self.key_steps.is_empty() || self.key_steps.iter().any(|k| rep.counters.contains_key(&format!("steps of {k}")));
        if nontrivial && rep.steps > 0 {
            out.fingerprints.push(rep.fingerprint);
        }
        if let Some((_, v)) = rep.violations.iter().find(|(p, _)| *p == self.prop) {
            out.violation = Some((v.clone(), (*case).clone()));
        }
        out
    }

    fn shrink(&self, case: &TCase) -> Vec<TCase> {
        shrink_case(case)
    }
}

fn report(prop: &'static str, tier: Tier, seed: u64, rule: &str, batches: Vec<BatchStats>, extra_real: &[&str]) -> CheckReport {
    let mut real: Vec<String> = vec![
        "all shipped components of the templates run unmodified (mahf::heuristics::*, mahf::components::*, mahf::conditions::*)".into(),
        "mahf::Configuration::run, State/StateRegistry, Populations, Random (ChaCha12 behind the counting SimRng wrapper)".into(),
    ];
    real.extend(extra_real.iter().map(|s| s.to_string()));
    CheckReport {
        property_id: prop.into(),
        tier,
        seed,
        level: "exploration",
        rule: rule.to_string(),
        assumptions: vec![
            "the harness problems' pure reference objective F (penalty regions included) is 'the value the objective function assigns'".into(),
            "observation goes through the cfg(mahf_verif) step/loop hooks in Block::execute and Loop::execute; a component that is not a child of a sequential block is observed only through its enclosing step".into(),
        ],
        real_components: real,
        stubbed_components: vec!["the optimisation problems (small instrumented real / binary / permutation / TSP instances)".into(), "termination condition wrapped in a counting condition".into()],
        batches,
        extra: Default::default(),
    }
}

pub fn all_kinds() -> Vec<Kind> {
    let mut v = SHIPPED.to_vec();
    v.push(Kind::GaArchive);
    v.push(Kind::EsArchive);
    v.push(Kind::DeVariants);
    v.push(Kind::GaVariants);
    v.push(Kind::GaVariants);
    v.push(Kind::EvalMix);
    v
}

fn mk<'a>(id: &'a str, batch: &'a str, seed: u64, tier: Tier, runs: u64, known: &'a KnownFindings) -> BatchConfig<'a> {
    BatchConfig { check_id: id, batch, base_seed: seed, tier, runs, threads: threads(), known, samples: 1 }
}

pub fn run_c05(tier: Tier, seed: u64, known: &KnownFindings) -> CheckReport {
    let mut kinds = all_kinds();
    kinds.push(Kind::FailMutation);
    kinds.push(Kind::BoundaryMix);
    let w = TemplateWorld { prop: "C05", world_name: "templates-c05", kinds, penalty: 0.4, faults: FaultMix::None, max_iters: (12, 40), evaluations_term: true, log: true, compound_term: false, key_steps: &[] };
    let b = run_batch(&w, &mk("C05", "templates-sequential", seed, tier, tier.pick(60_000, 1_500_000), known));
    let bp = run_batch(&crate::checks::c08::SeqVsPar { prop: "C05", name: "seq-vs-par-c05", mix: false }, &mk("C05", "templates-parallel-evaluator", seed, tier, tier.pick(1_500, 60_000), known));
    let bm = run_batch(&crate::checks::c08::SeqVsPar { prop: "C05", name: "seq-vs-par-mix-c05", mix: true }, &mk("C05", "parallel-evaluation-of-large-mixed-populations", seed, tier, tier.pick(1_500, 40_000), known));
    let be = run_batch(&crate::checks::experiment::Experiment { prop: "C05" }, &mk("C05", "par-experiment-audit", seed, tier, tier.pick(2_000, 60_000), known));
    let bi = run_batch(&crate::checks::indiv::IndividualHistories, &mk("C05", "individual-histories", seed, tier, tier.pick(300_000, 5_000_000), known));
    let mut r = report("C05", tier, seed, "parallel-evaluation-of-large-mixed-populations: prepared populations of 30..160 binary individuals over >= 6 bits (30 % neighbour duplicates, evaluated next to unevaluated) evaluated by evaluate::Parallel on 1..8 simulated workers under random / stall / sticky / PCT schedules, audited like every other step. par-experiment-audit: par_experiment (<= 6 runs x <= 3 problems, fixed- and varying-size templates, in 30 % of the cases every run evaluates with a clone of one Parallel evaluator) on the simulated pool; at the end of every run every evaluated individual of its population stack and its best individual must carry F(solution). individual-histories: one case = a seeded history of <= 80 Individual-level operations (construct evaluated / unevaluated, evaluate_with, set_objective, write through solution_mut, solution_mut without writing, clone, clone_from directly and through Vec::clone_from, clone_from_slice and Option::clone_from, move between collections, as_solutions_mut, into_solutions + into_individuals) against an (solution, Option<objective>) model audited after every operation. templates: one case = (template, swarm-style valid parameters incl. boundary values, problem instance with or without penalty regions, termination, seed); after EVERY child execution of every sequential block, at every nesting level, every evaluated individual in the population stack (all scope levels), best-so-far, elitist archive, personal bests, global best and molecule memories must carry exactly F(solution) (bit equality); non-trivial = at least one step executed; distinct = distinct (component-kind sequence, objective calls, result, final state) fingerprints. templates-parallel-evaluator: the same audit while objectives are written by the simulated workers of problems::evaluate::Parallel under seeded schedules", vec![b, bp, bm, be, bi], &["problems::evaluate::Parallel on the simulated pool (parallel batch)"]);
    r.stubbed_components.push("rayon (simulated worker pool on shuttle threads) in the parallel batch".into());
    r
}

pub fn run_c06(tier: Tier, seed: u64, known: &KnownFindings) -> CheckReport {
    let w = TemplateWorld { prop: "C06", world_name: "templates-c06", kinds: all_kinds(), penalty: 0.3, faults: FaultMix::Evaluator, max_iters: (12, 40), evaluations_term: true, log: false, compound_term: false, key_steps: &["PopulationEvaluator"] };
    let b = run_batch(&w, &mk("C06", "templates-sequential", seed, tier, tier.pick(120_000, 3_000_000), known));
    let bp = run_batch(&crate::checks::c08::SeqVsPar { prop: "C06", name: "seq-vs-par-c06", mix: false }, &mk("C06", "templates-parallel-evaluator", seed, tier, tier.pick(1_500, 60_000), known));
    let bm = run_batch(&crate::checks::c08::SeqVsPar { prop: "C06", name: "seq-vs-par-mix-c06", mix: true }, &mk("C06", "parallel-evaluation-of-large-mixed-populations", seed, tier, tier.pick(1_500, 40_000), known));
    let be = run_batch(&crate::checks::experiment::Experiment { prop: "C06" }, &mk("C06", "par-experiment-counts", seed, tier, tier.pick(2_000, 60_000), known));
    let bi = run_batch(&EvalIds, &mk("C06", "evaluator-identifiers", seed, tier, tier.pick(50_000, 1_000_000), known));
    let mut r = report("C06", tier, seed, "parallel-evaluation-of-large-mixed-populations and par-experiment-counts: as in C05, with the evaluation-step monitors and, for experiments, sum of the evaluations reported by all runs == objective calls made. one case as in C05 plus the faults no-evaluator / wrong-evaluator-id; at every evaluation step: one objective call per individual of the pre-step population (multiset equality), order and solutions unchanged, all evaluated, counter advanced by the population size (0 for empty population / empty stack); at every step of any component: counter delta == objective calls in the step; at run end: reported evaluations == objective calls, budget overshoot smaller than the last pass; missing evaluator: Err, zero calls, zero steps; non-trivial = at least one evaluation step executed. templates-parallel-evaluator: identical monitors with Parallel on 1..8 simulated workers under seeded schedules (exactly once, count exact, under every explored interleaving). evaluator-identifiers: a configuration that evaluates through identifier Global/A/B with evaluators registered under a subset of them", vec![b, bp, bm, be, bi], &["problems::evaluate::Parallel on the simulated pool (parallel batch)"]);
    r.stubbed_components.push("rayon (simulated worker pool on shuttle threads) in the parallel batch".into());
    r
}

// ---------------------------------------------------------------------------------------------
// evaluator identifiers

#[derive(Clone, Debug, serde::Serialize, serde::Deserialize)]
pub struct IdCase {
    /// 0 = Global, 1 = A, 2 = B
    pub requested: u8,
    pub registered: Vec<u8>,
    pub population: u32,
    pub iterations: u32,
    pub seed: u64,
    pub problem: crate::tw::problems::RealSpec,
    /// where the loop body evaluates: 0 = directly, 1 = only in the else body of an if/else whose
    /// condition never holds, 2 = only in the if body of a branch whose condition always holds,
    /// 3 = after a scope with a surrogate evaluator, 4 = directly, and a second loop (two more
    /// passes of the same body) follows the first in the same scope: one run, one counter
    #[serde(default)]
    pub placement: u8,
}

pub struct EvalIds;

/// An evaluator that assigns a constant without calling the objective function.
struct Surrogate;
impl mahf::problems::Evaluate for Surrogate {
    type Problem = crate::tw::problems::RealP;
    fn evaluate(&mut self, _problem: &Self::Problem, _state: &mut mahf::State<Self::Problem>, individuals: &mut [mahf::Individual<Self::Problem>]) {
        for i in individuals {
            i.set_objective(mahf::SingleObjective::try_from(12345.0).unwrap());
        }
    }
}

fn surrogate_init<I: mahf::identifier::Identifier>(state: &mut mahf::State<crate::tw::problems::RealP>) -> mahf::ExecResult<()> {
    state.insert_evaluator_as::<I>(Surrogate);
    crate::tw::observer::SURROGATE_SCOPE.with(|f| f.set(true));
    Ok(())
}

fn surrogate_merge(_outer: &mut mahf::State<crate::tw::problems::RealP>, _inner: mahf::State<crate::tw::problems::RealP>) -> mahf::ExecResult<()> {
    crate::tw::observer::SURROGATE_SCOPE.with(|f| f.set(false));
    Ok(())
}

fn id_config<I: mahf::identifier::Identifier>(c: &IdCase, cond: Box<dyn mahf::Condition<crate::tw::problems::RealP>>) -> mahf::Configuration<crate::tw::problems::RealP> {
    use mahf::components::{boundary, initialization, mutation};
    let second_phase = c.placement == 4;
    let n = c.iterations;
    let builder = mahf::Configuration::builder()
        .do_(initialization::RandomSpread::new(c.population))
        .while_(cond, |b| {
            let b = b.do_(mutation::NormalMutation::new_dev(0.1)).do_(boundary::Saturation::new());
            match c.placement {
                1 => b.if_else_(mahf::conditions::RandomChance::new(0.0), |x| x, |x| x.evaluate_with::<I>()),
                2 => b.if_(mahf::conditions::RandomChance::new(1.0), |x| x.evaluate_with::<I>()),
                // a scope whose state-init hook registers a surrogate evaluator under the same
                // identifier for the scope's own evaluation; the evaluation after the scope has
                // to use the evaluator registered by the caller again
                3 => b
                    .do_(mahf::components::Scope::new_with(surrogate_init::<I>, mahf::Configuration::builder().evaluate_with::<I>().build_component(), surrogate_merge))
                    .evaluate_with::<I>(),
                _ => b.evaluate_with::<I>(),
            }
            .update_best_individual()
        });
    if second_phase {
        builder
            .while_(mahf::conditions::LessThanN::iterations(n + 2), |b| b.do_(mutation::NormalMutation::new_dev(0.05)).do_(boundary::Saturation::new()).evaluate_with::<I>().update_best_individual())
            .build()
    } else {
        builder.build()
    }
}

impl World for EvalIds {
    type Case = IdCase;
    fn name(&self) -> &'static str {
        "evaluator-identifiers"
    }
    fn generate(&self, run_seed: u64, _tier: Tier) -> IdCase {
        let mut g = rng::stream(run_seed, "workload");
        let mut registered = Vec::new();
        for id in 0..3u8 {
            if g.chance(0.5) {
                registered.push(id);
            }
        }
        IdCase { requested: g.below(3) as u8, registered, population: g.below(6) as u32, iterations: g.below(5) as u32, seed: g.u64(), problem: crate::tw::problems::gen_real(&mut g, false, 3), placement: g.below(5) as u8 }
    }
    fn execute(&self, c: &IdCase) -> Outcome<IdCase> {
        use crate::tw::problems::*;
        use mahf::identifier::{Global, A, B};
        use mahf::problems::Sequential;
        let mut out = Outcome::new();
        out.evaluations = 1;
        let problem = RealP::new(c.problem.clone());
        let (cond, _, _) = termination::<RealP>(Term::Iterations(c.iterations));
        let config = match c.requested {
            0 => id_config::<Global>(c, cond),
            1 => id_config::<A>(c, cond),
            _ => id_config::<B>(c, cond),
        };
        let tcase = Arc::new(TCase {
            kind: Kind::RealRs,
            params: Default::default(),
            problem: ProblemSpec::Real(c.problem.clone()),
            term: Term::Iterations(c.iterations),
            seed: c.seed,
            evaluator: EvalMode::Sequential,
            fault: TFault::None,
            log: false,
            clone_config: false,
            stale_state: false,
            nest: 0,
        });
        let data = Arc::new(std::sync::Mutex::new(crate::tw::observer::ObsData::default()));
        let mut state: mahf::State<RealP> = mahf::State::new();
        state.insert(mahf::logging::Log::new());
        state.insert(mahf::state::common::Populations::<RealP>::new());
        state.insert(mahf::Random::with_rng::<crate::rng::SimRng>(c.seed));
        for id in &c.registered {
            match id {
                0 => state.insert_evaluator_as::<Global>(Sequential::<RealP>::new()),
                1 => state.insert_evaluator_as::<A>(Sequential::<RealP>::new()),
                _ => state.insert_evaluator_as::<B>(Sequential::<RealP>::new()),
            }
        }
        state.insert(mahf::verif::ObserverSlot::new(crate::tw::observer::Obs::<RealP>::new(tcase, data.clone())));
        crate::tw::observer::SURROGATE_SCOPE.with(|f| f.set(false));
        let r = guarded(|| config.run(&problem, &mut state));
        crate::tw::observer::SURROGATE_SCOPE.with(|f| f.set(false));
        let d = std::mem::take(&mut *data.lock().unwrap());
        out.steps = d.steps + problem.instr.n_calls() as u64;
        let present = c.registered.contains(&c.requested);
        bump(&mut out.counters, if present { "probe:requested identifier registered" } else { "fault:wrong-evaluator-id" }, 1);
        let mut fp = crate::rng::Fp::new();
        fp.str(&format!("{}{:?}{}{}{}", c.requested, c.registered, c.population, c.iterations, c.placement));
        out.fingerprints.push(fp.0);
        let v = match (&r, present) {
            (Err(p), _) => Some(Violation::new("evaluator-identifier-panic", format!("requested {} registered {:?}: panicked: {p}", c.requested, c.registered))),
            (Ok(Ok(())), false) => Some(Violation::new("missing-evaluator-not-reported", format!("requested identifier {} with evaluators registered under {:?}: the run succeeded ({} objective calls)", c.requested, c.registered, problem.instr.n_calls()))),
            (Ok(Err(_)), false) if problem.instr.n_calls() != 0 || d.step_index != 0 => {
                Some(Violation::new("missing-evaluator-reported-late", format!("requested identifier {} with {:?} registered: failed only after {} steps and {} objective calls", c.requested, c.registered, d.step_index, problem.instr.n_calls())))
            }
            (Ok(Err(e)), true) => Some(Violation::new("registered-evaluator-refused", format!("requested identifier {} is registered ({:?}) but the run failed: {e:#}", c.requested, c.registered))),
            (Ok(Ok(())), true) => d.violations.iter().find(|(p, _)| *p == "C06").map(|(_, v)| v.clone()).or_else(|| {
                let evals = state.try_get_value::<mahf::state::common::Evaluations>().ok();
                if evals.map(|e| e as usize) != Some(problem.instr.n_calls()) {
                    Some(Violation::new("run-end-evaluations-vs-calls identifiers", format!("reported {evals:?} evaluations, {} objective calls", problem.instr.n_calls())))
                } else {
                    None
                }
            }),
            _ => None,
        };
        if let Some(v) = v {
            out.violation = Some((v, c.clone()));
        }
        out
    }
}

pub fn run_c07(tier: Tier, seed: u64, known: &KnownFindings) -> CheckReport {
    let w = TemplateWorld { prop: "C07", world_name: "templates-c07", kinds: all_kinds(), penalty: 0.4, faults: FaultMix::None, max_iters: (12, 40), evaluations_term: true, log: false, compound_term: false, key_steps: &["BestIndividualUpdate", "ElitistArchiveUpdate"] };
    let b = run_batch(&w, &mk("C07", "templates-sequential", seed, tier, tier.pick(200_000, 4_000_000), known));
    let wa = TemplateWorld { prop: "C07", world_name: "templates-c07", kinds: vec![Kind::GaArchive, Kind::EsArchive], penalty: 0.4, faults: FaultMix::None, max_iters: (12, 40), evaluations_term: false, log: false, compound_term: false, key_steps: &["ElitistArchiveUpdate"] };
    let b2 = run_batch(&wa, &mk("C07", "archive-assemblies", seed, tier, tier.pick(60_000, 1_500_000), known));
    report("C07", tier, seed, "at every best-individual update: exists iff existed or population non-empty, <= min(population), <= before, replaced only by a strictly better member of the population; at run end for every template: reported best == minimum of the objective-call log; elitist archive (ga/es assembled with ElitistArchiveUpdate(k), k in {0,1,2,5,20}, and ElitistArchiveIntoPopulation): archived values == k smallest of (previous archive + population), members were shown, re-insertion leaves count max(before, 1); penalty regions supply ties at +inf; non-trivial = at least one update step executed", vec![b, b2], &[])
}

pub fn run_c16(tier: Tier, seed: u64, known: &KnownFindings) -> CheckReport {
    let w = TemplateWorld { prop: "C16", world_name: "templates-c16", kinds: SHIPPED.to_vec(), penalty: 0.0, faults: FaultMix::None, max_iters: (40, 120), evaluations_term: false, log: true, compound_term: false, key_steps: &[] };
    let b = run_batch(&w, &mk("C16", "templates-valid-parameters", seed, tier, tier.pick(250_000, 6_000_000), known));
    let w2 = TemplateWorld { prop: "C16", world_name: "templates-c16", kinds: SHIPPED.to_vec(), penalty: 0.0, faults: FaultMix::ExtremeDraw, max_iters: (40, 120), evaluations_term: false, log: false, compound_term: false, key_steps: &[] };
    let b2 = run_batch(&w2, &mk("C16", "templates-extreme-draws", seed, tier, tier.pick(120_000, 3_000_000), known));
    let bp = run_batch(&crate::checks::c08::SeqVsPar { prop: "C16", name: "seq-vs-par-c16", mix: false }, &mk("C16", "templates-parallel-evaluator", seed, tier, tier.pick(1_200, 50_000), known));
    let mut r = report_c16(tier, seed, vec![b, b2, bp]);
    r.stubbed_components.push("rayon (simulated worker pool on shuttle threads) in the parallel batch".into());
    r
}

fn report_c16(tier: Tier, seed: u64, batches: Vec<BatchStats>) -> CheckReport {
    report("C16", tier, seed, "templates-parallel-evaluator: the same templates run with problems::evaluate::Parallel on 1..8 simulated workers under 3 (quick) / 8 (thorough) seeded schedules each; the run-end and per-pass monitors of the parallel runs, and a panic that the sequential run with the same seed does not have. one case = (one of the 21 shipped template constructors, parameters drawn from its documented valid ranges incl. boundaries: population 1-2, tournament = population, probabilities 0 and 1, y in {1,2}, small v_max, very unequal distances; instance; n in 0..120 iterations; seed); no failing fault, no penalty regions; oracle: run returns Ok without panic, iteration counter == n, n+1 condition tests, stack height at pass end == at pass begin for every pass of every loop, one population at the end, population size after every pass within the template's prescription; the extreme-draw batch forces one word of the random stream to 0 or u64::MAX (legal outputs); non-trivial = at least one step executed", batches, &[])
}

pub fn run_c18(tier: Tier, seed: u64, known: &KnownFindings) -> CheckReport {
    let w = TemplateWorld { prop: "C18", world_name: "templates-c18", kinds: vec![Kind::Pso], penalty: 0.2, faults: FaultMix::SwarmResize, max_iters: (25, 80), evaluations_term: false, log: false, compound_term: true, key_steps: &["ParticleVelocitiesUpdate"] };
    let b = run_batch(&w, &mk("C18", "pso-runs", seed, tier, tier.pick(150_000, 3_000_000), known));
    let b2 = run_batch(&crate::checks::swarms::TwoSwarms, &mk("C18", "two-swarms", seed, tier, tier.pick(20_000, 400_000), known));
    let b3 = run_batch(&crate::checks::c08::SeqVsPar { prop: "C18", name: "seq-vs-par-c18", mix: false }, &mk("C18", "pso-parallel-evaluator", seed, tier, tier.pick(800, 30_000), known));
    report("C18", tier, seed, "two-swarms: the identifier variants of the PSO components composed into a two-swarm search (swarm Global and swarm A, 1..8 particles each, own population on the stack, own velocities and best memories, RotatePopulations between them); a harness component records the best position every particle of every swarm was evaluated at, and after every swarm's update its personal bests must be exactly those, its global best the best of them, and its three collections aligned. PSO template runs over swarm sizes 1..12, dimension 1..5, c1,c2 in {0} u (0,3], weights in [0,1.2], v_max from 1e-3 to 10 domain widths; after every velocity update: |v| <= v_max, x_after == x_before + v_after exactly, v_after within the interval the update rule allows for the STORED inertia weight (an equality when c1 = c2 = 0); after the linear mapping: weight == start + (end-start)*progress exactly; personal best == best value the particle was ever evaluated at, never worse; global best value == min personal best; the three collections have equal length after every step; non-trivial = at least one velocity update executed. pso-parallel-evaluator: the same swarm monitors while the particles' objective values are written by evaluate::Parallel on 1..8 simulated workers under seeded schedules", vec![b, b2, b3], &["problems::evaluate::Parallel on the simulated pool (parallel batch)"])
}

pub fn run_c19(tier: Tier, seed: u64, known: &KnownFindings) -> CheckReport {
    let w = TemplateWorld { prop: "C19", world_name: "templates-c19", kinds: vec![Kind::AntSystem, Kind::Mmas], penalty: 0.0, faults: FaultMix::ExtremeDraw, max_iters: (60, 200), evaluations_term: false, log: false, compound_term: false, key_steps: &["AcoGeneration"] };
    let b = run_batch(&w, &mk("C19", "aco-runs", seed, tier, tier.pick(120_000, 2_500_000), known));
    report("C19", tier, seed, "both ACO templates over 2..8 cities, distance matrices incl. ratios up to 1e12, 0..8 ants, alpha,beta in [0,5], rho in [0,1], bounds, up to 200 iterations (long-evaporated trails), extreme draws; after generation: ants+1 tours, each a permutation of all cities starting at 0, unevaluated; after update: pm_after == (1-rho)*pm_before + deposits recomputed from the rewarded tours on exactly the consecutive-city edges in both directions (relative tolerance 1e-9), symmetric, finite, >= 0, max-min: within bounds; non-trivial = at least one generation executed", vec![b], &[])
}

pub fn run_c20(tier: Tier, seed: u64, known: &KnownFindings) -> CheckReport {
    let w = TemplateWorld { prop: "C20", world_name: "templates-c20", kinds: vec![Kind::Cro], penalty: 0.0, faults: FaultMix::None, max_iters: (60, 300), evaluations_term: false, log: false, compound_term: false, key_steps: &["OnWallIneffectiveCollisionUpdate", "DecompositionUpdate", "IntermolecularIneffectiveCollisionUpdate", "SynthesisUpdate"] };
    let b = run_batch(&w, &mk("C20", "cro-runs", seed, tier, tier.pick(100_000, 2_000_000), known));
    let bp = run_batch(&crate::checks::prepared::Reactions, &mk("C20", "prepared-reactions", seed, tier, tier.pick(400_000, 6_000_000), known));
    report("C20", tier, seed, "prepared-reactions: one case = one elementary-reaction update executed on a hand-built state (main population of 1..6 molecules with objective values and kinetic energies from grids, equal individuals allowed, reactants at chosen indices incl. the second before the first, products whose energies sit just below / at / just above the reactants' total, buffer in {0, 0.01, 1, 100}); same ledger, sign, alignment, pairing and stack oracle. cro-runs: CRO template runs over its nine parameters (buffer 0, initial KE 0, alpha 0, large beta, mole_coll in {0,1} included), up to 300 iterations; around every reaction update: sum of objective values + kinetic energies + buffer unchanged within 1e-9 relative, no negative kinetic energy or buffer, one molecule record per individual, uninvolved (individual, molecule) pairs unchanged and in order, exactly two populations consumed; non-trivial = at least one reaction update executed", vec![b, bp], &[])
}
