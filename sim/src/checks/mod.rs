pub mod c01;
pub mod c02;
pub mod c03;
pub mod c08;
pub mod c10;
pub mod c15;
pub mod experiment;
pub mod tworld;
