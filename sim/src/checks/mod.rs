pub mod c03;
