//! C01 — the registry is a stack of typed maps with innermost-scope resolution.
//!
//! Batch `direct-histories`: seeded operation histories (incl. explicit scope push/pop,
//! `with_inner_state` and `holding` with succeeding and failing closures) on a real `State`, in
//! lock-step with the stack-of-maps model: every return value and, after every operation, the
//! content of every scope level must agree.
//! Batch `scoped-programs`: the same operation scripts run by probe leaves inside generated
//! configurations, so that scopes are pushed and popped by the real `Scope` component — also
//! when an injected failure forces the exit.

use crate::checks::c03;
use crate::engine::gen::{GenCfg, ProgGen};
use crate::engine::ops::*;
use crate::engine::program::*;
use crate::framework::*;
use crate::rng::{self, Fp};
use mahf::State;
use serde::{Deserialize, Serialize};

#[derive(Clone, Debug, Serialize, Deserialize)]
pub struct HistCase {
    pub ops: Vec<Op>,
}

pub struct Histories;

fn op_kind(op: &Op) -> &'static str {
    match op {
        Op::Insert(..) => "insert",
        Op::Remove(..) => "remove",
        Op::Take(..) => "take",
        Op::Contains(..) => "contains",
        Op::ContainsTop(..) => "contains_at_top",
        Op::Find(..) => "find",
        Op::TryGet(..) => "try_get_value",
        Op::Get(..) => "get_value",
        Op::Set(..) => "set_value",
        Op::GetMut(..) => "get_mut",
        Op::TryBorrow(..) => "try_borrow",
        Op::TryBorrowMut(..) => "try_borrow_mut",
        Op::TryBorrowValue(..) => "try_borrow_value",
        Op::TryBorrowValueMut(..) => "try_borrow_value_mut",
        Op::Borrow(..) => "borrow",
        Op::BorrowMut(..) => "borrow_mut",
        Op::BorrowValueMut(..) => "borrow_value_mut",
        Op::EntryAndModifyOrInsert(..) => "entry.and_modify.or_insert",
        Op::EntryModifyValueOrDefault(..) => "entry.and_modify_value.or_default",
        Op::EntryOrInsertWith(..) => "entry.or_insert_with",
        Op::EntryMatch(_, a, _) => match a {
            OccAction::Get => "entry.occupied.get",
            OccAction::GetMut => "entry.occupied.get_mut",
            OccAction::Insert => "entry.occupied.insert",
            OccAction::Remove => "entry.occupied.remove",
            OccAction::IntoMut => "entry.occupied.into_mut",
        },
        Op::Push => "into_child",
        Op::Pop => "into_parent",
        Op::WithInner { .. } => "with_inner_state",
        Op::Holding { .. } => "holding",
        Op::Require(..) => "require",
        Op::SetBest(..) => "set_best",
        Op::SetBestHere(..) => "set_best_here",
        Op::ConfigureLog { .. } => "configure_log",
        Op::SetWhileBorrowed(..) => "set_value-while-borrowed",
        Op::GetWhileBorrowedMut(..) => "try_get_value-while-borrowed-mut",
        Op::BestWhileShared => "best_objective_value-while-shared",
        Op::SetPopulation(..) => "set_population",
        Op::SetFloat(..) => "set_float",
        Op::PresentWhileBorrowedMut(_, 1) => "require-while-borrowed-mut",
        Op::PresentWhileBorrowedMut(..) => "contains-while-borrowed-mut",
        Op::MultiWrite { .. } => "try_get_multiple_mut",
    }
}

fn note_probes(m: &Model, op: &Op, c: &mut Counters) {
    let shadowed = |t: u8| m.scopes.iter().filter(|s| s.contains_key(&t)).count() >= 2;
    match op {
        Op::Remove(t) | Op::Take(t) => {
            if let Some(i) = m.find(*t) {
                if i + 1 < m.scopes.len() {
                    bump(c, "probe:remove resolves below the top scope", 1);
                }
                if shadowed(*t) {
                    bump(c, "probe:remove of a shadowing value", 1);
                }
            }
        }
        Op::EntryAndModifyOrInsert(t, ..)
        | Op::EntryModifyValueOrDefault(t, ..)
        | Op::EntryOrInsertWith(t, ..)
        | Op::EntryMatch(t, ..) => {
            if shadowed(*t) {
                bump(c, "probe:entry on a shadowed type", 1);
            }
            if m.find(*t).map(|i| i + 1 < m.scopes.len()).unwrap_or(false) {
                bump(c, "probe:entry resolves below the top scope", 1);
            }
            if m.find(*t).is_none() && m.scopes.len() > 1 {
                bump(c, "probe:vacant entry in a nested scope", 1);
            }
        }
        Op::Pop => {
            if m.scopes.len() > 1 {
                let top = m.scopes.last().unwrap();
                if top.keys().any(|k| m.scopes[..m.scopes.len() - 1].iter().any(|s| s.contains_key(k))) {
                    bump(c, "probe:pop re-exposes a shadowed value", 1);
                }
            }
        }
        Op::WithInner { fail: true, .. } => bump(c, "fault:closure-fail (with_inner_state)", 1),
        Op::Holding { fail: true, t, .. } => {
            if m.find(*t).is_some() {
                bump(c, "fault:closure-fail (holding)", 1)
            }
        }
        _ => {}
    }
}

impl World for Histories {
    type Case = HistCase;
    fn name(&self) -> &'static str {
        "registry-histories"
    }

    fn generate(&self, run_seed: u64, tier: Tier) -> HistCase {
        let mut g = rng::stream(run_seed, "workload");
        let n = 4 + g.below(tier.pick(50, 160));
        let ntypes = 2 + g.below(5) as u8;
        let mut og = OpGen { g: &mut g, next_val: 0, ntypes };
        let ops = (0..n).map(|_| og.op(true, 2, true)).collect();
        HistCase { ops }
    }

    fn execute(&self, case: &HistCase) -> Outcome<HistCase> {
        let mut out = Outcome::new();
        out.evaluations = 1;
        let mut st: St = State::new();
        let mut m = Model::default();
        let mut fp = Fp::new();
        let mut max_depth = 0;
        for (i, op) in case.ops.iter().enumerate() {
            note_probes(&m, op, &mut out.counters);
            let expected = m.apply(op);
            if m.reentrant_hit {
                bump(&mut out.counters, "probe:re-entrant holding of a type the closure re-created", 1);
                m.reentrant_hit = false;
            }
            // an operation of the registry that panics where the model answers is an answer, too
            // (the state may be half-moved afterwards; the history ends at the first mismatch)
            let real = match guarded(|| apply_real(op, &mut st)) {
                Ok(r) => r,
                Err(_) => Ret::Panicked,
            };
            out.steps += 1;
            fp.str(op_kind(op));
            fp.str(&format!("{expected:?}"));
            max_depth = max_depth.max(m.depth());
            if expected != real {
                out.violation = Some((
                    Violation::new(
                        format!("op-result-mismatch op={}", op_kind(op)),
                        format!("op #{i} {op:?}: a stack of maps returns {expected:?}, the registry returned {real:?}"),
                    ),
                    HistCase { ops: case.ops[..=i].to_vec() },
                ));
                break;
            }
            let levels = snapshot(&st);
            let exp_levels: Vec<_> = m.scopes.clone();
            if levels != exp_levels {
                out.violation = Some((
                    Violation::new(
                        format!("registry-content-mismatch after op={}", op_kind(op)),
                        format!("after op #{i} {op:?}: expected scopes {exp_levels:?}, registry holds {levels:?}"),
                    ),
                    HistCase { ops: case.ops[..=i].to_vec() },
                ));
                break;
            }
        }
        if max_depth >= 1 && case.ops.len() >= 3 {
            out.fingerprints.push(fp.0);
        }
        out
    }

    fn shrink(&self, case: &HistCase) -> Vec<HistCase> {
        shrink_ops(&case.ops).into_iter().map(|ops| HistCase { ops }).collect()
    }
}

/// Programs whose leaves run registry scripts; scopes are entered and left by the real `Scope`.
pub struct ScopedPrograms;

impl World for ScopedPrograms {
    type Case = c03::Case;
    fn name(&self) -> &'static str {
        "registry-in-programs"
    }

    fn generate(&self, run_seed: u64, tier: Tier) -> c03::Case {
        let mut g = rng::stream(run_seed, "workload");
        let cfg = GenCfg {
            max_nodes: tier.pick(14, 40),
            max_depth: 4,
            max_ops: 8,
            closure_depth: 2,
            panicking_ops: true,
            ntypes: 2 + g.below(5) as u8,
            real_conds: 0.0,
            loggers: false,
            requires: false,
            small_values: false,
        };
        let program = ProgGen::new(&mut g, &cfg).program();
        // fault plan: none, or one failing event drawn from the fault-free reference trace
        let mut fg = rng::stream(run_seed, "faults");
        let plan = if fg.chance(0.6) {
            let mut it = Interp::new(&program, None, false);
            it.run(&program);
            let enters: Vec<Fault> = it
                .trace
                .iter()
                .filter_map(|e| match e {
                    Ev::Enter { id, phase, occ } => Some(Fault { id: *id, phase: *phase, occ: *occ }),
                    _ => None,
                })
                .collect();
            if enters.is_empty() { None } else { Some(*fg.pick(&enters)) }
        } else {
            None
        };
        c03::Case { program, plans: c03::Plans::One(plan), clone_config: false }
    }

    fn execute(&self, case: &c03::Case) -> Outcome<c03::Case> {
        let mut out = Outcome::new();
        out.evaluations = 1;
        let plan = match &case.plans {
            c03::Plans::One(p) => *p,
            c03::Plans::All => None,
        };
        if plan.is_some() {
            bump(&mut out.counters, "fault:leaf-or-condition-fail", 1);
        }
        let mut fp = None;
        let v = c03::check_one(&case.program, plan, false, &mut fp, &mut out.steps, &mut out.counters);
        if let Some(f) = fp {
            out.fingerprints.push(f);
        }
        if let Some(v) = v {
            out.violation = Some((v, case.clone()));
        }
        out
    }

    fn shrink(&self, case: &c03::Case) -> Vec<c03::Case> {
        c03::C03World { real_conds: 0.0, loggers: false }.shrink(case)
    }
}

pub fn run(tier: Tier, seed: u64, known: &KnownFindings) -> CheckReport {
    let b1 = run_batch(
        &Histories,
        &BatchConfig { check_id: "C01", batch: "direct-histories", base_seed: seed, tier, runs: tier.pick(500_000, 6_000_000), threads: threads(), known, samples: 1 },
    );
    let b2 = run_batch(
        &ScopedPrograms,
        &BatchConfig { check_id: "C01", batch: "scoped-programs", base_seed: seed, tier, runs: tier.pick(250_000, 3_000_000), threads: threads(), known, samples: 1 },
    );
    CheckReport {
        property_id: "C01".into(),
        tier,
        seed,
        level: "exploration",
        rule: "direct-histories: one case = one seeded history of 4..160 registry operations over 2..6 state types (insert, remove, take, contains, contains_at_top, find, value get/set, get_mut, guards, every entry-API path, explicit into_child/into_parent, with_inner_state and holding with closures that succeed or fail, nested to depth 2); non-trivial = reaches scope depth >= 1 and has >= 3 operations; distinct = distinct (operation kind, model result) sequences. scoped-programs: one case = one generated configuration whose probe leaves run such scripts, executed fault-free or with one injected failure; non-trivial = at least one leaf or condition executed; distinct = distinct event skeletons".into(),
        assumptions: vec![
            "the oracle is a Vec<BTreeMap<type, value>>; every written value is unique so each read is attributable to one write".into(),
            "apart from failure-forced scope exits this property has no schedule or fault in it; the rest of the check is a reference-model history check (DESIGN.md section 5/C01)".into(),
        ],
        real_components: vec!["mahf::state::{State, StateRegistry, entry API, StateReq}".into(), "mahf::components::control_flow::Scope (scoped-programs batch)".into()],
        stubbed_components: vec!["leaf components (harness probes)".into()],
        batches: vec![b1, b2],
        extra: Default::default(),
    }
}
