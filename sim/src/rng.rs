//! One integer decides everything: SplitMix64 derivation of per-run, per-stream seeds, a small
//! deterministic generator for the harness' own choices, and `SimRng`, the generator handed to
//! mahf (`Random::with_rng::<SimRng>`), which is ChaCha12 (bit-identical to `Random::new`) behind
//! a counting wrapper with an optional *extreme-draw* buggify.

use rand::{RngCore, SeedableRng};
use rand_chacha::ChaCha12Rng;
use std::cell::Cell;

pub fn splitmix64(x: &mut u64) -> u64 {
    *x = x.wrapping_add(0x9E37_79B9_7F4A_7C15);
    let mut z = *x;
    z = (z ^ (z >> 30)).wrapping_mul(0xBF58_476D_1CE4_E5B9);
    z = (z ^ (z >> 27)).wrapping_mul(0x94D0_49BB_1331_11EB);
    z ^ (z >> 31)
}

/// Seed of run `index` of check `check` under `VERIF_SEED = base`.
pub fn run_seed(base: u64, check: &str, index: u64) -> u64 {
    let mut x = base ^ 0xA5A5_5A5A_1234_5678;
    for b in check.bytes() {
        x = splitmix64(&mut x) ^ (b as u64);
    }
    x = splitmix64(&mut x) ^ index;
    splitmix64(&mut x)
}

/// Independent named stream of a run seed.
pub fn stream(run_seed: u64, name: &str) -> Gen {
    let mut x = run_seed;
    for b in name.bytes() {
        x = splitmix64(&mut x) ^ (b as u64).wrapping_mul(0x100_0000_01B3);
    }
    Gen { s: splitmix64(&mut x) }
}

/// Harness-side generator (SplitMix64). Never used in logging paths.
#[derive(Clone, Debug)]
pub struct Gen {
    s: u64,
}

impl Gen {
    pub fn new(seed: u64) -> Self {
        Gen { s: seed }
    }
    pub fn u64(&mut self) -> u64 {
        splitmix64(&mut self.s)
    }
    /// uniform in 0..n (n > 0)
    pub fn below(&mut self, n: usize) -> usize {
        debug_assert!(n > 0);
        (self.u64() % n as u64) as usize
    }
    pub fn range(&mut self, lo: usize, hi_incl: usize) -> usize {
        lo + self.below(hi_incl - lo + 1)
    }
    pub fn chance(&mut self, p: f64) -> bool {
        self.f64() < p
    }
    pub fn f64(&mut self) -> f64 {
        (self.u64() >> 11) as f64 / (1u64 << 53) as f64
    }
    pub fn f64_in(&mut self, lo: f64, hi: f64) -> f64 {
        lo + (hi - lo) * self.f64()
    }
    pub fn pick<'a, T>(&mut self, xs: &'a [T]) -> &'a T {
        &xs[self.below(xs.len())]
    }
    pub fn shuffle<T>(&mut self, xs: &mut [T]) {
        for i in (1..xs.len()).rev() {
            let j = self.below(i + 1);
            xs.swap(i, j);
        }
    }
}

// ---------------------------------------------------------------------------------------------

thread_local! {
    /// (word index at which to force a value, forced value); applies to the first `SimRng`
    /// constructed on this thread after it was armed (the root generator of the run).
    static EXTREME: Cell<Option<(u64, u64)>> = const { Cell::new(None) };
    static EXTREME_FIRED: Cell<u64> = const { Cell::new(0) };
    static WORDS: Cell<u64> = const { Cell::new(0) };
}

/// Arm the extreme-draw buggify for the next root `SimRng` created on this thread.
pub fn arm_extreme_draw(plan: Option<(u64, u64)>) {
    EXTREME.with(|e| e.set(plan));
    EXTREME_FIRED.with(|e| e.set(0));
}

pub fn extreme_draws_fired() -> u64 {
    EXTREME_FIRED.with(|e| e.get())
}

/// Number of 64/32-bit words drawn from all `SimRng`s on this thread since the last reset.
pub fn take_words_drawn() -> u64 {
    WORDS.with(|w| w.replace(0))
}

pub struct SimRng {
    inner: ChaCha12Rng,
    drawn: u64,
    extreme: Option<(u64, u64)>,
}

impl SimRng {
    fn wrap(inner: ChaCha12Rng) -> Self {
        let extreme = EXTREME.with(|e| e.take());
        SimRng {
            inner,
            drawn: 0,
            extreme,
        }
    }
    #[inline]
    fn tick(&mut self) -> Option<u64> {
        let i = self.drawn;
        self.drawn += 1;
        WORDS.with(|w| w.set(w.get() + 1));
        match self.extreme {
            Some((at, v)) if at == i => {
                EXTREME_FIRED.with(|e| e.set(e.get() + 1));
                Some(v)
            }
            _ => None,
        }
    }
}

impl RngCore for SimRng {
    fn next_u32(&mut self) -> u32 {
        let forced = self.tick();
        let v = self.inner.next_u32();
        match forced {
            Some(f) => f as u32,
            None => v,
        }
    }
    fn next_u64(&mut self) -> u64 {
        let forced = self.tick();
        let v = self.inner.next_u64();
        forced.unwrap_or(v)
    }
    fn fill_bytes(&mut self, dest: &mut [u8]) {
        self.tick();
        self.inner.fill_bytes(dest)
    }
    fn try_fill_bytes(&mut self, dest: &mut [u8]) -> Result<(), rand::Error> {
        self.tick();
        self.inner.try_fill_bytes(dest)
    }
}

impl SeedableRng for SimRng {
    type Seed = <ChaCha12Rng as SeedableRng>::Seed;
    fn from_seed(seed: Self::Seed) -> Self {
        SimRng::wrap(ChaCha12Rng::from_seed(seed))
    }
    fn seed_from_u64(state: u64) -> Self {
        // identical stream to `mahf::Random::new(state)`
        SimRng::wrap(ChaCha12Rng::seed_from_u64(state))
    }
}

pub fn fnv1a(bytes: &[u8]) -> u64 {
    let mut h: u64 = 0xcbf29ce484222325;
    for b in bytes {
        h ^= *b as u64;
        h = h.wrapping_mul(0x100000001b3);
    }
    h
}

/// Incremental 64-bit hasher (FNV-1a over fed words) for fingerprints.
#[derive(Clone, Copy, Debug)]
pub struct Fp(pub u64);

impl Default for Fp {
    fn default() -> Self {
        Fp(0xcbf29ce484222325)
    }
}

impl Fp {
    pub fn new() -> Self {
        Self::default()
    }
    pub fn u64(&mut self, x: u64) {
        for b in x.to_le_bytes() {
            self.0 ^= b as u64;
            self.0 = self.0.wrapping_mul(0x100000001b3);
        }
    }
    pub fn str(&mut self, s: &str) {
        for b in s.bytes() {
            self.0 ^= b as u64;
            self.0 = self.0.wrapping_mul(0x100000001b3);
        }
        self.u64(s.len() as u64);
    }
    pub fn f64(&mut self, x: f64) {
        self.u64(x.to_bits())
    }
}
