//! Template world: the shipped heuristics run unmodified on small instrumented problems, observed
//! after every component execution through the cfg(mahf_verif) step/loop hooks.

pub mod problems;
pub mod templates;
pub mod observer;
pub mod run;
