//! Executing one template case (sequentially, or inside a shuttle execution with the simulated
//! worker pool) and collecting what the monitors saw.

use super::observer::*;
use super::problems::*;
use super::templates::*;
use crate::framework::{bump, guarded, Counters, Violation};
use crate::rng::{self, Fp, SimRng};
use crate::simio;
use mahf::conditions::common::DeltaEqChecker;
use mahf::conditions::{ChangeOf, EveryN, LessThanN};
use mahf::identifier;
use mahf::lens::common::{BestObjectiveValueLens, BestSolutionLens, PopulationSizeLens};
use mahf::logging::Log;
use mahf::problems::{Parallel, Sequential};
use mahf::state::common::{Evaluations, Evaluator, Iterations, Populations};
use mahf::verif::ObserverSlot;
use mahf::{Condition, Configuration, ExecResult, Random, State};
use rand::RngCore;
use std::sync::atomic::Ordering;
use std::sync::{Arc, Mutex};

#[derive(Clone, Debug, PartialEq)]
pub enum RunResult {
    Ok,
    Err(String),
    Panic(String),
    BuildErr(String),
}

/// Everything that must be identical between two runs of the same configuration, problem and seed.
#[derive(Clone, Debug, PartialEq, Default)]
pub struct Digest {
    pub populations: Vec<Vec<KV>>,
    pub best: Option<KV>,
    pub evaluations: Option<u32>,
    pub iterations: Option<u32>,
    pub log: Option<String>,
    pub next_random_word: Option<u64>,
    pub rng_config: Option<(String, u64)>,
    /// states written by measuring components: (name, diversity bits, maximal diversity bits)
    pub measures: Vec<(&'static str, u64, u64)>,
}

pub struct RunReport {
    pub result: RunResult,
    pub violations: Vec<(&'static str, Violation)>,
    pub counters: Counters,
    pub steps: u64,
    pub fingerprint: u64,
    pub digest: Digest,
    pub calls: usize,
    pub max_inflight: usize,
    pub tests: u32,
    pub trues: u32,
    pub schedule_hash: u64,
    pub passes_main: u32,
    pub words_drawn: u64,
}

fn install_log_config<P: HProblem>(state: &mut State<P>) -> ExecResult<()> {
    state.configure_log(|config| {
        config
            .with_common(EveryN::iterations(3))
            .with(ChangeOf::new(DeltaEqChecker::new(0.1.try_into().unwrap()), BestObjectiveValueLens::new()), BestObjectiveValueLens::entry())
            .with(EveryN::iterations(4), PopulationSizeLens::entry());
        Ok(())
    })
}

pub fn digest_of<P: HProblem>(state: &State<P>, tag: &str) -> Digest {
    let mut d = Digest::default();
    if let Ok(pops) = state.try_borrow::<Populations<P>>() {
        for depth in (0..pops.len()).rev() {
            d.populations.push(pops.peek(depth).iter().map(|i| (P::key(i.solution()), i.get_objective().map(|o| o.value().to_bits()))).collect());
        }
    }
    d.best = state.best_individual().map(|i| (P::key(i.solution()), i.get_objective().map(|o| o.value().to_bits())));
    d.evaluations = state.try_get_value::<Evaluations>().ok();
    d.iterations = state.try_get_value::<Iterations>().ok();
    if let Ok(log) = state.try_borrow::<Log>() {
        let path = simio::scratch_dir().join(format!("digest-{tag}.json"));
        if log.to_json(&path).is_ok() {
            d.log = std::fs::read(&path).ok().and_then(|b| simio::decode_json(&b).ok()).map(|l| format!("{l:?}"));
            let _ = std::fs::remove_file(&path);
        }
    }
    {
        use mahf::components::diversity::{DimensionWiseDiversity, DistanceToAveragePointDiversity, Diversity, PairwiseDistanceDiversity, TrueDiversity};
        macro_rules! measure {
            ($I:ty, $name:expr) => {
                if let Ok(m) = state.try_borrow::<Diversity<$I>>() {
                    d.measures.push(($name, m.diversity.to_bits(), m.max_diversity.to_bits()));
                }
            };
        }
        measure!(DimensionWiseDiversity, "dimension-wise diversity");
        measure!(PairwiseDistanceDiversity, "pairwise-distance diversity");
        measure!(TrueDiversity, "true diversity");
        measure!(DistanceToAveragePointDiversity, "distance-to-average-point diversity");
    }
    if let Ok(mut r) = state.try_borrow_mut::<Random>() {
        d.rng_config = Some((r.config().name.to_string(), r.config().seed));
        d.next_random_word = Some(r.next_u64());
    }
    d
}

/// Runs `case` on `problem` with the given configuration builder. Must be called inside a shuttle
/// execution when the case uses the parallel evaluator.
pub fn run_generic<P, B>(case: &Arc<TCase>, problem: &P, build: B, par: bool) -> RunReport
where
    P: HProblem,
    B: Fn(&TCase, Box<dyn Condition<P>>) -> ExecResult<Configuration<P>>,
{
    let (cond, tests, trues) = termination::<P>(case.term);
    let data = Arc::new(Mutex::new(ObsData::default()));
    let mut report = RunReport {
        result: RunResult::Ok,
        violations: Vec::new(),
        counters: Counters::new(),
        steps: 0,
        fingerprint: 0,
        digest: Digest::default(),
        calls: 0,
        max_inflight: 0,
        tests: 0,
        trues: 0,
        schedule_hash: 0,
        passes_main: 0,
        words_drawn: 0,
    };
    let config = match guarded(|| build(case, cond)) {
        Ok(Ok(c)) => c,
        Ok(Err(e)) => {
            report.result = RunResult::BuildErr(format!("{e:#}"));
            return report;
        }
        Err(p) => {
            report.result = RunResult::BuildErr(format!("panic: {p}"));
            return report;
        }
    };
    let config = if case.nest > 0 {
        // restart loop { scope { [scope {] template [}] } ; evaluate ; update_best_individual }
        let mut inner = config.into_inner();
        for _ in 1..case.nest {
            let body = inner;
            inner = Configuration::builder().scope_(move |b| b.do_(body)).build_component();
        }
        // ... or, where the nested heuristic left an evaluated population, the update alone
        let plain_update = case.seed & 2 == 2;
        Configuration::builder()
            .while_(LessThanN::iterations(NEST_RESTARTS), move |b| {
                let b = b.scope_(move |b| b.do_(inner));
                if plain_update {
                    b.if_(Box::new(AllEvaluated), |b| b.update_best_individual())
                } else {
                    b.evaluate().update_best_individual()
                }
            })
            .build()
    } else {
        config
    };
    let config = if case.clone_config { config.clone() } else { config };
    problem.instr().yield_in_objective.store(par, Ordering::Relaxed);
    rng::take_words_drawn();
    match case.fault {
        TFault::ExtremeDraw { at, max } => rng::arm_extreme_draw(Some((at, if max { u64::MAX } else { 0 }))),
        _ => rng::arm_extreme_draw(None),
    }
    let mut state: State<P> = State::new();
    state.insert(Log::new());
    state.insert(Populations::<P>::new());
    state.insert(Random::with_rng::<SimRng>(case.seed));
    match (case.fault, par) {
        (TFault::NoEvaluator, _) => {}
        (TFault::WrongEvaluatorId, false) => state.insert_evaluator_as::<identifier::A>(Sequential::<P>::new()),
        (TFault::WrongEvaluatorId, true) => state.insert_evaluator_as::<identifier::A>(Parallel::<P>::new()),
        (_, false) => state.insert_evaluator(Sequential::<P>::new()),
        (_, true) => state.insert_evaluator(Parallel::<P>::new()),
    }
    if case.log {
        let _ = install_log_config(&mut state);
    }
    if case.stale_state {
        // the caller re-uses the state of an earlier run of the same configuration: every counter
        // and memory that run left behind is still there; initialisation has to reset them
        state.insert(Evaluations(137));
        state.insert(Iterations(11));
        // ... which was about the same or about another instance of the same size
        let other = if case.seed & 1 == 1 { Some(problem.sibling()) } else { None };
        if let Some(o) = &other {
            o.instr().yield_in_objective.store(par, Ordering::Relaxed);
        }
        let warm = guarded(|| config.run(other.as_ref().unwrap_or(problem), &mut state));
        if let Ok(Ok(())) = warm {
            bump(&mut data.lock().unwrap().counters, "fault:stale-state-from-an-earlier-run", 1);
            if other.is_some() {
                bump(&mut data.lock().unwrap().counters, "fault:stale-state-from-a-run-on-another-instance", 1);
            }
        }
        // the caller starts the next run from an empty population stack and a fresh generator
        if let Ok(mut pops) = state.try_borrow_mut::<Populations<P>>() {
            while pops.try_pop().is_some() {}
        }
        state.insert(Random::with_rng::<SimRng>(case.seed));
        problem.instr().reset();
        tests.store(0, Ordering::SeqCst);
        trues.store(0, Ordering::SeqCst);
        rng::take_words_drawn();
        match case.fault {
            TFault::ExtremeDraw { at, max } => rng::arm_extreme_draw(Some((at, if max { u64::MAX } else { 0 }))),
            _ => rng::arm_extreme_draw(None),
        }
    }
    state.insert(ObserverSlot::new(Obs::<P>::new(case.clone(), data.clone())));
    let r = guarded(|| config.run(problem, &mut state));
    report.result = match r {
        Ok(Ok(())) => RunResult::Ok,
        Ok(Err(e)) => RunResult::Err(format!("{e:#}")),
        Err(p) => RunResult::Panic(p),
    };
    let mut d = std::mem::take(&mut *data.lock().unwrap());
    report.calls = problem.instr().n_calls();
    report.max_inflight = problem.instr().max_inflight.load(Ordering::SeqCst);
    report.tests = tests.load(Ordering::SeqCst);
    report.trues = trues.load(Ordering::SeqCst);
    report.passes_main = d.passes_main;
    report.words_drawn = rng::take_words_drawn();
    if rng::extreme_draws_fired() > 0 {
        bump(&mut d.counters, "fault:extreme-draw", rng::extreme_draws_fired());
    }
    rng::arm_extreme_draw(None);

    // ---- run-end monitors ----------------------------------------------------------------
    let tname = case.kind.name();
    // C05 holds for whatever the caller is left with, also after a run that ended with an error
    // (the step audits only see the steps that succeeded)
    if !matches!(report.result, RunResult::Panic(_) | RunResult::Ok) {
        Obs::<P>::new(case.clone(), data.clone()).audit_objectives(problem, &state, "the failed run", &mut d);
        bump(&mut d.counters, "probe:state audited after a run that ended with an error", 1);
    }
    if !matches!(report.result, RunResult::Panic(_)) {
        let evals = state.try_get_value::<Evaluations>().ok();
        let injected_fault = !matches!(case.fault, TFault::None | TFault::ExtremeDraw { .. });
        match case.fault {
            TFault::NoEvaluator | TFault::WrongEvaluatorId => {
                bump(&mut d.counters, if case.fault == TFault::NoEvaluator { "fault:no-evaluator" } else { "fault:wrong-evaluator-id" }, 1);
                if !matches!(report.result, RunResult::Err(_)) {
                    d.violate("C06", "missing-evaluator-not-reported", format!("({tname}) no evaluator under the requested identifier, but the run returned {:?}", report.result));
                } else if case.nest == 0 && (report.calls != 0 || d.step_index != 0) {
                    d.violate("C06", "missing-evaluator-reported-late", format!("({tname}) no evaluator under the requested identifier: the run failed only after {} steps and {} objective calls", d.step_index, report.calls));
                }
            }
            _ => {}
        }
        let evals_at_end = evals;
        if case.nest > 0 && !injected_fault && report.result == RunResult::Ok {
            // counters and memories of the nested heuristic ended with its scope; what is left at
            // the outer level is one population per restart
            bump(&mut d.counters, "probe:template run as a nested heuristic inside scopes", 1);
            if case.nest >= 2 {
                bump(&mut d.counters, "probe:template nested two scopes deep", 1);
            }
            let h = state.try_borrow::<Populations<P>>().map(|p| p.len()).unwrap_or(0);
            if h != NEST_RESTARTS as usize {
                d.violate("C16", format!("stack-height-at-end template={tname}"), format!("{tname} (nested, {NEST_RESTARTS} restarts): {h} populations on the stack at the end of the run"));
            }
        }
        if case.nest == 0 && !injected_fault && report.result == RunResult::Ok {
            if let Some(e) = evals {
                if e as usize != report.calls {
                    d.violate("C06", format!("run-end-evaluations-vs-calls template={tname}"), format!("{tname}: the run reports {e} evaluations, the objective function was called {} times", report.calls));
                }
                if let Term::Evaluations(b) = case.term {
                    if d.passes_main > 0 && (e as u64) >= b as u64 + d.calls_in_last_pass.max(1) {
                        d.violate("C06", format!("evaluation-budget-overshoot template={tname}"), format!("{tname}: budget {b}, reported {e}, last pass made {} calls", d.calls_in_last_pass));
                    }
                    d.probe("budget-terminated run");
                }
            }
            // C07: the reported best equals the minimum the objective ever returned
            let min_call = problem.instr().calls.lock().unwrap().iter().map(|(_, v)| f64::from_bits(*v)).min_by(|a, b| a.total_cmp(b));
            let best = state.best_objective_value().map(|o| o.value());
            if let (Some(m), true) = (min_call, state.contains::<mahf::state::common::BestIndividual<P>>()) {
                if best.map(super::observer::zbits) != Some(super::observer::zbits(m)) {
                    d.violate("C07", format!("run-end-best-vs-minimum template={tname}"), format!("{tname}: best objective value reported {best:?}, minimum the objective returned {m}"));
                }
            }
            // C16
            if let Term::Either { evals, iters } = case.term {
                // the loop ran while either budget was left, and not one pass longer
                let it = state.try_get_value::<Iterations>().ok().unwrap_or(0);
                let e = evals_at_end.unwrap_or(0);
                if it < iters || e < evals {
                    d.violate("C16", format!("compound-termination-early template={tname}"), format!("{tname}: evaluations({evals}) | iterations({iters}) ended at {e} evaluations, {it} iterations"));
                }
                if it > iters && d.passes_main > 0 && (e as u64) >= evals as u64 + d.calls_in_last_pass.max(1) {
                    d.violate("C16", format!("compound-termination-late template={tname}"), format!("{tname}: evaluations({evals}) | iterations({iters}) ended at {e} evaluations, {it} iterations; the last pass made {} calls", d.calls_in_last_pass));
                }
                d.probe("run terminated by a compound condition");
            }
            if let Term::Iterations(n) = case.term {
                let it = state.try_get_value::<Iterations>().ok();
                if it != Some(n) {
                    d.violate("C16", format!("iteration-count template={tname}"), format!("{tname}: asked for {n} iterations, the counter reads {it:?}"));
                }
                if report.trues != n || report.tests != n + 1 {
                    d.violate("C16", format!("loop-pass-count template={tname}"), format!("{tname}: termination condition tested {} times and true {} times for {n} iterations", report.tests, report.trues));
                }
                if n == 0 {
                    d.probe("run with zero iterations");
                }
            }
            let h = state.try_borrow::<Populations<P>>().map(|p| p.len()).unwrap_or(0);
            if h != 1 {
                d.violate("C16", format!("stack-height-at-end template={tname}"), format!("{tname}: {h} populations on the stack at the end of the run"));
            }
        }
    }
    if let TFault::SwarmResize { .. } = case.fault {
        // once the population no longer matches the swarm state, the next swarm update refuses:
        // the run fails with an error (a resize in the very last pass goes unnoticed)
        match &report.result {
            RunResult::Panic(p) => d.violate("C18", "pso-unaligned-collections-panic", format!("{tname}: {p}")),
            RunResult::Err(_) if !d.injected => d.violate("C16", format!("run-failed template={tname} kind=error"), format!("{tname}: run failed before the injected resize")),
            RunResult::Err(_) => d.probe("swarm update refused unaligned collections"),
            _ => {}
        }
    } else if matches!(case.fault, TFault::None | TFault::ExtremeDraw { .. }) && matches!(&report.result, RunResult::Err(e) if e.contains("::Evaluator<") && (e.contains("does not exist") || e.contains("is missing"))) {
        // C06: the evaluator the caller registered is what every evaluation step of the run finds -
        // a run that loses it on the way (it was there when the requirements were checked, or the
        // check itself looked in the wrong place) fails although nothing was missing
        if let RunResult::Err(e) = &report.result {
            let short: String = e.chars().take(200).collect();
            d.violate("C06", "registered-evaluator-lost", format!("{tname}: an evaluator was registered by the caller, yet the run failed with: {short}"));
            d.violate("C16", format!("run-failed template={tname} kind=error"), format!("{tname}: run returned Err: {short}"));
        }
    } else if case.kind == Kind::FailMutation {
        // the mutation's own validation error is the expected end of these runs
        match &report.result {
            RunResult::Err(e) if e.contains("injected: scaled coordinate") => bump(&mut d.counters, "fault:user-mutation-failed-after-modifying", 1),
            RunResult::Err(e) => d.violate("C16", format!("run-failed template={tname} kind=error"), format!("{tname}: run returned Err: {}", e.chars().take(160).collect::<String>())),
            RunResult::Panic(p) => d.violate("C16", format!("run-failed template={tname} kind=panic"), format!("{tname}: run panicked: {p}")),
            _ => {}
        }
    } else if !matches!(case.fault, TFault::NoEvaluator | TFault::WrongEvaluatorId | TFault::StepFail(_)) {
        match &report.result {
            RunResult::Ok => {}
            RunResult::Err(e) => {
                let short: String = e.chars().take(160).collect();
                d.violate("C16", format!("run-failed template={tname} kind=error"), format!("{tname}: run returned Err: {short}"));
            }
            RunResult::Panic(p) => d.violate("C16", format!("run-failed template={tname} kind=panic"), format!("{tname}: run panicked: {p}")),
            RunResult::BuildErr(_) => {}
        }
    } else if let TFault::StepFail(_) = case.fault {
        if d.injected && !matches!(report.result, RunResult::Err(_)) {
            d.violate("C03", "step-failure-swallowed", format!("{tname}: an injected step failure did not fail the run"));
        }
    }
    // C19: generation must always yield tours - an ant-colony run that aborts did not
    if matches!(case.kind, Kind::AntSystem | Kind::Mmas) && matches!(case.fault, TFault::None | TFault::ExtremeDraw { .. }) {
        match &report.result {
            RunResult::Err(e) => d.violate("C19", "aco-run-failed kind=error", format!("{tname}: {}", e.chars().take(200).collect::<String>())),
            RunResult::Panic(p) => d.violate("C19", "aco-run-failed kind=panic", format!("{tname}: {p}")),
            _ => {}
        }
    }
    report.digest = digest_of(&state, "run");
    report.violations = std::mem::take(&mut d.violations);
    report.counters = std::mem::take(&mut d.counters);
    report.steps = d.steps + report.calls as u64;
    let mut fp = d.fp;
    fp.str(tname);
    fp.u64(report.calls as u64);
    fp.str(&format!("{:?}", report.result));
    // distinct executions: also the state the run ended in
    fp.str(&format!("{:?}{:?}{:?}", report.digest.populations, report.digest.best, report.digest.next_random_word));
    report.fingerprint = fp.0;
    report
}

/// Dispatch on the problem family of the case.
pub fn run_sequential(case: &Arc<TCase>) -> RunReport {
    match (&case.problem, case.kind.family()) {
        (ProblemSpec::Real(spec), Family::Real) => run_generic(case, &RealP::new(spec.clone()), build_real::<RealP>, false),
        (ProblemSpec::Bin(spec), Family::Bin) => run_generic(case, &BinP::new(spec.clone()), build_bin::<BinP>, false),
        (ProblemSpec::Tsp(spec), Family::Perm | Family::Tsp) => run_generic(case, &TspP::new(spec.clone()), build_perm::<TspP>, false),
        _ => panic!("harness: problem/template family mismatch in {case:?}"),
    }
}

/// Runs the case with `problems::evaluate::Parallel` inside a shuttle execution.
pub fn run_parallel(case: &Arc<TCase>, spec: crate::par::SchedSpec) -> (RunReport, u64, u64, u64) {
    let c = case.clone();
    let pr = crate::par::run_in_shuttle(spec, move || match (&c.problem, c.kind.family()) {
        (ProblemSpec::Real(spec), Family::Real) => run_generic(&c, &RealP::new(spec.clone()), build_real::<RealP>, true),
        (ProblemSpec::Bin(spec), Family::Bin) => run_generic(&c, &BinP::new(spec.clone()), build_bin::<BinP>, true),
        (ProblemSpec::Tsp(spec), Family::Perm | Family::Tsp) => run_generic(&c, &TspP::new(spec.clone()), build_perm::<TspP>, true),
        _ => panic!("harness: problem/template family mismatch"),
    });
    match pr.result {
        Ok(mut rep) => {
            rep.schedule_hash = pr.schedule_hash;
            if pr.stalls > 0 {
                bump(&mut rep.counters, "fault:worker-stalled", pr.stalls);
            }
            (rep, pr.schedule_hash, pr.scheduler_steps, pr.context_switches)
        }
        Err(p) => {
            // a panic that escaped run_generic's own guard: inside the simulated pool
            let rep = RunReport {
                result: RunResult::Panic(p),
                violations: Vec::new(),
                counters: Counters::new(),
                steps: 0,
                fingerprint: 0,
                digest: Digest::default(),
                calls: 0,
                max_inflight: 0,
                tests: 0,
                trues: 0,
                schedule_hash: pr.schedule_hash,
                passes_main: 0,
                words_drawn: 0,
            };
            (rep, pr.schedule_hash, pr.scheduler_steps, pr.context_switches)
        }
    }
}
