//! Template workloads: explicit, serialisable description of one run (template, parameters,
//! problem instance, termination, seed, evaluator, fault plan) and the construction of the real
//! configuration from it.

use super::problems::*;
use crate::rng::Gen;
use mahf::components::{archive, boundary, initialization, mapping, mutation, recombination, replacement, selection, swarm, Block};
use mahf::lens::ValueOf;
use mahf::state::common::Iterations;
use mahf::Component;
use mahf::conditions::{Condition, LessThanN};
use mahf::heuristics::*;
use mahf::problems::{LimitedVectorProblem, TravellingSalespersonProblem, VectorProblem};
use mahf::state::StateReq;
use mahf::{identifier::Global, Configuration, ExecResult, Problem, State};
use serde::{Deserialize, Serialize};
use std::collections::BTreeMap;
use std::sync::atomic::{AtomicU32, Ordering};
use std::sync::Arc;

#[derive(Clone, Copy, Debug, PartialEq, Eq, PartialOrd, Ord, Serialize, Deserialize)]
pub enum Kind {
    BinaryGa,
    RealGa,
    Es,
    De,
    Pso,
    RealSa,
    PermSa,
    RealLs,
    PermLs,
    RealIls,
    PermIls,
    RealRs,
    PermRs,
    RealRw,
    PermRw,
    Iwo,
    Fa,
    Bh,
    Cro,
    AntSystem,
    Mmas,
    /// `ga::ga` assembled with an elitist archive (update + re-insertion)
    GaArchive,
    /// `es::es` assembled with an elitist archive
    EsArchive,
    /// `de::de` assembled from the other shipped DE selections / crossovers
    DeVariants,
    /// `ga::ga` assembled from the other shipped selections, crossovers, mutations, repairs
    GaVariants,
    /// evaluation steps on prepared populations: 0..8 binary individuals, runs of equal
    /// neighbours, a mix of evaluated and unevaluated ones (harness component + `evaluate` +
    /// `update_best_individual`)
    EvalMix,
    /// a large initialisation (population x dimension between 2^14 and 2^15 elements: code that
    /// switches strategy at a size threshold), evaluated and re-evaluated
    BigInit,
    /// a user-defined mutation built on the public `Mutation` trait and the `mutation()` driver
    /// that modifies coordinate by coordinate and validates afterwards: it fails in the middle
    /// of an individual once the population has drifted far enough - the run ends with an
    /// error and the state the caller still holds is audited
    FailMutation,
    /// a mutation-only search over a population of 8..80 individuals whose loop also runs the
    /// four shipped diversity measures (components that only measure and write a state)
    Measures,
    /// the four shipped boundary repairs on prepared, evaluated populations whose coordinates
    /// sit on, one ulp beside, and far outside the domain bounds
    BoundaryMix,
}

pub const SHIPPED: [Kind; 21] = [
    Kind::BinaryGa, Kind::RealGa, Kind::Es, Kind::De, Kind::Pso, Kind::RealSa, Kind::PermSa, Kind::RealLs, Kind::PermLs,
    Kind::RealIls, Kind::PermIls, Kind::RealRs, Kind::PermRs, Kind::RealRw, Kind::PermRw, Kind::Iwo, Kind::Fa, Kind::Bh,
    Kind::Cro, Kind::AntSystem, Kind::Mmas,
];

impl Kind {
    pub fn name(self) -> &'static str {
        match self {
            Kind::BinaryGa => "binary_ga",
            Kind::RealGa => "real_ga",
            Kind::Es => "real_mu_plus_lambda_es",
            Kind::De => "real_de",
            Kind::Pso => "real_pso",
            Kind::RealSa => "real_sa",
            Kind::PermSa => "permutation_sa",
            Kind::RealLs => "real_ls",
            Kind::PermLs => "permutation_ls",
            Kind::RealIls => "real_ils",
            Kind::PermIls => "permutation_ils",
            Kind::RealRs => "real_rs",
            Kind::PermRs => "permutation_rs",
            Kind::RealRw => "real_rw",
            Kind::PermRw => "permutation_random_walk",
            Kind::Iwo => "real_iwo",
            Kind::Fa => "real_fa",
            Kind::Bh => "real_bh",
            Kind::Cro => "real_cro",
            Kind::AntSystem => "ant_system",
            Kind::Mmas => "max_min_ant_system",
            Kind::GaArchive => "ga+archive",
            Kind::EsArchive => "es+archive",
            Kind::DeVariants => "de-variants",
            Kind::GaVariants => "ga-variants",
            Kind::EvalMix => "evaluation-of-mixed-populations",
            Kind::BigInit => "large-permutation-initialisation",
            Kind::FailMutation => "modify-then-validate-mutation",
            Kind::Measures => "search-with-diversity-measures",
            Kind::BoundaryMix => "boundary-repair-of-prepared-populations",
        }
    }
    pub fn family(self) -> Family {
        match self {
            Kind::BinaryGa | Kind::EvalMix => Family::Bin,
            Kind::PermSa | Kind::PermLs | Kind::PermIls | Kind::PermRs | Kind::PermRw | Kind::BigInit => Family::Perm,
            Kind::AntSystem | Kind::Mmas => Family::Tsp,
            _ => Family::Real,
        }
    }
    /// templates whose documentation excludes infinite objective values
    pub fn tolerates_infinite(self) -> bool {
        !matches!(self, Kind::Iwo | Kind::Cro | Kind::Bh | Kind::AntSystem | Kind::Mmas | Kind::Fa | Kind::RealSa | Kind::PermSa)
    }
}

#[derive(Clone, Copy, Debug, PartialEq, Eq)]
pub enum Family {
    Real,
    Bin,
    Perm,
    Tsp,
}

#[derive(Clone, Debug, PartialEq, Serialize, Deserialize)]
pub enum ProblemSpec {
    Real(RealSpec),
    Bin(BinSpec),
    Tsp(TspSpec),
}

#[derive(Clone, Copy, Debug, PartialEq, Serialize, Deserialize)]
pub enum Term {
    Iterations(u32),
    Evaluations(u32),
    /// `LessThanN::evaluations(evals) | LessThanN::iterations(iters)`: the loop runs while either
    /// budget is left
    Either { evals: u32, iters: u32 },
}

#[derive(Clone, Copy, Debug, PartialEq, Serialize, Deserialize)]
pub enum EvalMode {
    Sequential,
    /// `problems::evaluate::Parallel` on `workers` simulated workers under shuttle
    Parallel { workers: usize, sched_seed: u64, pct: bool },
}

#[derive(Clone, Copy, Debug, PartialEq, Serialize, Deserialize)]
pub enum TFault {
    None,
    NoEvaluator,
    WrongEvaluatorId,
    /// the j-th step (child execution of any sequential block) fails
    StepFail(u32),
    /// the `at`-th word drawn from the root generator is forced to 0 or u64::MAX
    ExtremeDraw { at: u64, max: bool },
    /// (PSO) a foreign component at the end of pass `at_iter` removes (or duplicates) one particle
    /// of the population without touching velocities and personal bests: the next swarm update
    /// has to refuse
    SwarmResize { at_iter: u32, grow: bool, first: bool },
}

#[derive(Clone, Debug, PartialEq, Serialize, Deserialize)]
pub struct TCase {
    pub kind: Kind,
    pub params: BTreeMap<String, f64>,
    pub problem: ProblemSpec,
    pub term: Term,
    pub seed: u64,
    pub evaluator: EvalMode,
    pub fault: TFault,
    pub log: bool,
    /// run through a clone of the configuration
    pub clone_config: bool,
    /// the caller's state still holds counters and memories of an earlier run
    #[serde(default)]
    pub stale_state: bool,
    /// the template is used as a nested heuristic: `nest` scopes deep inside a restart loop of
    /// `NEST_RESTARTS` passes, followed by a best-individual update at the outer level
    #[serde(default)]
    pub nest: u8,
}

pub const NEST_RESTARTS: u32 = 2;

impl TCase {
    pub fn p(&self, k: &str) -> f64 {
        *self.params.get(k).unwrap_or_else(|| panic!("harness: missing parameter {k} for {:?}", self.kind))
    }
    pub fn pu(&self, k: &str) -> u32 {
        self.p(k) as u32
    }
}

// ---------------------------------------------------------------------------------------------
// termination condition that counts its own tests

pub struct Counting<P: Problem> {
    pub inner: Box<dyn Condition<P>>,
    pub tests: Arc<AtomicU32>,
    pub trues: Arc<AtomicU32>,
}

impl<P: Problem> Clone for Counting<P> {
    fn clone(&self) -> Self {
        Counting { inner: self.inner.clone(), tests: self.tests.clone(), trues: self.trues.clone() }
    }
}

impl<P: Problem> Serialize for Counting<P> {
    fn serialize<S: serde::Serializer>(&self, s: S) -> Result<S::Ok, S::Error> {
        s.serialize_newtype_struct("Counting", &self.inner)
    }
}

impl<P: Problem> Condition<P> for Counting<P> {
    fn init(&self, problem: &P, state: &mut State<P>) -> ExecResult<()> {
        self.inner.init(problem, state)
    }
    fn require(&self, problem: &P, state_req: &StateReq<P>) -> ExecResult<()> {
        self.inner.require(problem, state_req)
    }
    fn evaluate(&self, problem: &P, state: &mut State<P>) -> ExecResult<bool> {
        let r = self.inner.evaluate(problem, state)?;
        self.tests.fetch_add(1, Ordering::SeqCst);
        if r {
            self.trues.fetch_add(1, Ordering::SeqCst);
        }
        Ok(r)
    }
}

/// Harness condition: the current population exists and every individual in it is evaluated.
#[derive(Clone, Serialize)]
pub struct AllEvaluated;

impl<P: Problem> Condition<P> for AllEvaluated {
    fn evaluate(&self, _problem: &P, state: &mut State<P>) -> ExecResult<bool> {
        let pops = state.populations();
        Ok(pops.get_current().map(|c| c.iter().all(|i| i.is_evaluated())).unwrap_or(false))
    }
}

pub fn termination<P: Problem>(term: Term) -> (Box<dyn Condition<P>>, Arc<AtomicU32>, Arc<AtomicU32>) {
    let tests = Arc::new(AtomicU32::new(0));
    let trues = Arc::new(AtomicU32::new(0));
    let inner = match term {
        Term::Iterations(n) => LessThanN::iterations(n),
        Term::Evaluations(b) => LessThanN::evaluations(b),
        Term::Either { evals, iters } => LessThanN::evaluations(evals) | LessThanN::iterations(iters),
    };
    (Box::new(Counting { inner, tests: tests.clone(), trues: trues.clone() }), tests, trues)
}

// ---------------------------------------------------------------------------------------------
// workload component: replaces the current population by a prepared one

#[derive(Clone, Serialize)]
pub struct MixedPopulation {
    pub seed: u64,
    pub max: usize,
    pub in_loop: bool,
}

impl<P> Component<P> for MixedPopulation
where
    P: HProblem + VectorProblem<Element = bool>,
{
    fn execute(&self, problem: &P, state: &mut State<P>) -> ExecResult<()> {
        let it = state.try_get_value::<Iterations>().unwrap_or(0) as u64;
        let mut g = Gen::new(self.seed ^ (0x4D49_5845u64 << 8) ^ if self.in_loop { it + 1 } else { 0 });
        let dim = problem.dimension();
        // small cases cover 0..max, large ones stay large (more distinct solutions than any
        // window or cache a component is likely to keep)
        let n = if self.max >= 40 { self.max / 2 + g.below(self.max / 2 + 1) } else { g.below(self.max + 1) };
        let dup = if self.max >= 40 { 0.3 } else { 0.5 };
        let mut pop: Vec<mahf::Individual<P>> = Vec::with_capacity(n);
        for i in 0..n {
            // runs of equal neighbours are the rule, not the exception
            let solution: Vec<bool> = if i > 0 && g.chance(dup) { pop[i - 1].solution().clone() } else { (0..dim).map(|_| g.chance(0.5)).collect() };
            let ind = if g.chance(0.5) {
                let f = problem.reference(&solution);
                mahf::Individual::new(solution, mahf::SingleObjective::try_from(f).expect("harness objective is never NaN"))
            } else {
                mahf::Individual::new_unevaluated(solution)
            };
            pop.push(ind);
        }
        let mut pops = state.populations_mut();
        let _ = pops.try_pop();
        pops.push(pop);
        Ok(())
    }
}

// ---------------------------------------------------------------------------------------------
// workload component: replaces the current population by evaluated real-valued individuals whose
// coordinates are drawn from a grid around the domain bounds

#[derive(Clone, Serialize)]
pub struct BoundaryPopulation {
    pub seed: u64,
    pub max: usize,
    /// `Mirror` and `CompleteOneTailedNormalCorrection` loop `while !range.contains(x)` over the
    /// half-open `Range`: a coordinate exactly on the upper bound is never "contained" and never
    /// changed - they do not terminate (a statement of the not-claimed C14; DESIGN 6.3). Such
    /// coordinates are left out for these two.
    pub avoid_upper: bool,
}

impl<P> Component<P> for BoundaryPopulation
where
    P: HProblem + LimitedVectorProblem<Element = f64>,
{
    fn execute(&self, problem: &P, state: &mut State<P>) -> ExecResult<()> {
        let it = state.try_get_value::<Iterations>().unwrap_or(0) as u64;
        let mut g = Gen::new(self.seed ^ (0x424F_554Eu64 << 8) ^ (it + 1));
        let domain = problem.domain();
        let n = 1 + g.below(self.max);
        let up = |x: f64| f64::from_bits(if x > 0.0 { x.to_bits() + 1 } else if x < 0.0 { x.to_bits() - 1 } else { 1 });
        let down = |x: f64| -up(-x);
        let mut pop: Vec<mahf::Individual<P>> = Vec::with_capacity(n);
        for _ in 0..n {
            let solution: Vec<f64> = domain
                .iter()
                .map(|r| {
                    let (lo, hi) = (r.start, r.end);
                    let w = hi - lo;
                    match g.below(12) {
                        0 => lo,
                        1 if !self.avoid_upper => hi,
                        2 => up(hi),
                        3 => down(hi),
                        4 => up(lo),
                        5 => down(lo),
                        6 => hi + w * g.f64_in(0.01, 2.5),
                        7 => lo - w * g.f64_in(0.01, 0.99),
                        8 => up(up(hi)),
                        _ => g.f64_in(lo, hi),
                    }
                })
                .collect();
            let f = problem.reference(&solution);
            // most are evaluated: a repair that touches a coordinate has to drop the value
            let ind = if f.is_nan() || g.chance(0.1) { mahf::Individual::new_unevaluated(solution) } else { mahf::Individual::new(solution, mahf::SingleObjective::try_from(f).expect("harness objective is never NaN")) };
            pop.push(ind);
        }
        let mut pops = state.populations_mut();
        let _ = pops.try_pop();
        pops.push(pop);
        Ok(())
    }
}

// ---------------------------------------------------------------------------------------------
// workload component: a mutation on the public `Mutation` trait + `mutation()` driver that
// changes a solution coordinate by coordinate and validates each new coordinate afterwards

#[derive(Clone, Serialize)]
pub struct CheckedScaling {
    pub factor: f64,
    pub limit: f64,
}

impl<P> mutation::Mutation<P> for CheckedScaling
where
    P: HProblem + VectorProblem<Element = f64>,
{
    fn mutate(&self, solution: &mut Vec<f64>, _problem: &P, _state: &mut State<P>) -> ExecResult<()> {
        for x in solution.iter_mut() {
            *x *= self.factor;
            eyre::ensure!(x.abs() <= self.limit, "injected: scaled coordinate {x} exceeds the limit {}", self.limit);
        }
        Ok(())
    }
}

impl<P> Component<P> for CheckedScaling
where
    P: HProblem + VectorProblem<Element = f64>,
{
    fn execute(&self, problem: &P, state: &mut State<P>) -> ExecResult<()> {
        mutation::mutation(self, problem, state)
    }
}

// ---------------------------------------------------------------------------------------------
// fault component: resizes the population behind the swarm components' back

#[derive(Clone, Serialize)]
pub struct SwarmResize {
    pub at_iter: u32,
    pub grow: bool,
    pub first: bool,
}

impl<P: Problem> Component<P> for SwarmResize {
    fn execute(&self, _problem: &P, state: &mut State<P>) -> ExecResult<()> {
        if state.try_get_value::<Iterations>().ok() != Some(self.at_iter) {
            return Ok(());
        }
        let mut pops = state.populations_mut();
        let cur = pops.current_mut();
        if cur.is_empty() {
            return Ok(());
        }
        let i = if self.first { 0 } else { cur.len() - 1 };
        if self.grow {
            let x = cur[i].clone();
            cur.insert(i, x);
        } else {
            cur.remove(i);
        }
        Ok(())
    }
}

// ---------------------------------------------------------------------------------------------
// building the real configurations

pub fn build_real<P>(c: &TCase, cond: Box<dyn Condition<P>>) -> ExecResult<Configuration<P>>
where
    P: HProblem + LimitedVectorProblem<Element = f64>,
{
    match c.kind {
        Kind::RealGa => ga::real_ga(
            ga::RealProblemParameters {
                population_size: c.pu("population_size"),
                tournament_size: c.pu("tournament_size"),
                pm: c.p("pm"),
                deviation: c.p("deviation"),
                pc: c.p("pc"),
            },
            cond,
        ),
        Kind::Es => es::real_mu_plus_lambda_es::<P, ()>(
            es::RealProblemParameters { population_size: c.pu("population_size"), lambda: c.pu("lambda"), deviation: c.p("deviation") },
            cond,
        ),
        Kind::De => de::real_de(
            de::RealProblemParameters { population_size: c.pu("population_size"), y: c.pu("y"), f: c.p("f"), pc: c.p("pc") },
            cond,
        ),
        Kind::Pso if matches!(c.fault, TFault::SwarmResize { .. }) => {
            // real_pso spelled out, with the fault component at the end of the state update
            let TFault::SwarmResize { at_iter, grow, first } = c.fault else { unreachable!() };
            let (sw, ew, vmax) = (c.p("start_weight"), c.p("end_weight"), c.p("v_max"));
            Ok(Configuration::builder()
                .do_(initialization::RandomSpread::new(c.pu("num_particles")))
                .evaluate()
                .update_best_individual()
                .do_(pso::pso::<P, Global>(
                    pso::Parameters {
                        particle_init: swarm::pso::ParticleSwarmInit::new(vmax)?,
                        particle_update: swarm::pso::ParticleVelocitiesUpdate::new(sw, c.p("c_one"), c.p("c_two"), vmax)?,
                        constraints: boundary::Saturation::new(),
                        inertia_weight_update: Some(mapping::Linear::new(
                            sw,
                            ew,
                            ValueOf::<mahf::state::common::Progress<ValueOf<Iterations>>>::new(),
                            ValueOf::<swarm::pso::InertiaWeight<swarm::pso::ParticleVelocitiesUpdate>>::new(),
                        )),
                        state_update: Block::new(vec![swarm::pso::ParticleSwarmUpdate::new(), Box::new(SwarmResize { at_iter, grow, first })]),
                    },
                    cond,
                ))
                .build())
        }
        // the generic `pso()` assembly: like `real_pso`, but the velocity update is built with a
        // weight of its own - it is the schedule (also a constant one) that decides the stored weight
        Kind::Pso if c.params.contains_key("update_weight") => {
            use mahf::state::common::{Iterations as It, Progress};
            let (sw, ew, v_max) = (c.p("start_weight"), c.p("end_weight"), c.p("v_max"));
            Ok(Configuration::builder()
                .do_(initialization::RandomSpread::new(c.pu("num_particles")))
                .evaluate()
                .update_best_individual()
                .do_(pso::pso::<P, Global>(
                    pso::Parameters {
                        particle_init: swarm::pso::ParticleSwarmInit::new(v_max)?,
                        particle_update: swarm::pso::ParticleVelocitiesUpdate::new(c.p("update_weight"), c.p("c_one"), c.p("c_two"), v_max)?,
                        constraints: boundary::Saturation::new(),
                        inertia_weight_update: Some(mapping::Linear::new(
                            sw,
                            ew,
                            ValueOf::<Progress<ValueOf<It>>>::new(),
                            ValueOf::<swarm::pso::InertiaWeight<swarm::pso::ParticleVelocitiesUpdate>>::new(),
                        )),
                        state_update: swarm::pso::ParticleSwarmUpdate::new(),
                    },
                    cond,
                ))
                .build())
        }
        Kind::Pso => pso::real_pso(
            pso::RealProblemParameters {
                num_particles: c.pu("num_particles"),
                start_weight: c.p("start_weight"),
                end_weight: c.p("end_weight"),
                c_one: c.p("c_one"),
                c_two: c.p("c_two"),
                v_max: c.p("v_max"),
            },
            cond,
        ),
        Kind::RealSa => sa::real_sa(sa::RealProblemParameters { t_0: c.p("t_0"), alpha: c.p("alpha"), deviation: c.p("deviation") }, cond),
        Kind::RealLs => ls::real_ls(ls::RealProblemParameters { n_neighbors: c.pu("n_neighbors"), deviation: c.p("deviation") }, cond),
        Kind::RealIls => ils::real_ils(
            ils::RealProblemParameters {
                ls_params: ls::RealProblemParameters { n_neighbors: c.pu("n_neighbors"), deviation: c.p("deviation") },
                ls_condition: LessThanN::iterations(c.pu("inner_iterations")),
            },
            cond,
        ),
        Kind::RealRs => rs::real_rs(cond),
        Kind::RealRw => rw::real_rw(rw::RealProblemParameters { deviation: c.p("deviation") }, cond),
        Kind::Iwo => iwo::real_iwo(
            iwo::RealProblemParameters {
                initial_population_size: c.pu("initial_population_size"),
                max_population_size: c.pu("max_population_size"),
                min_number_of_seeds: c.pu("min_number_of_seeds"),
                max_number_of_seeds: c.pu("max_number_of_seeds"),
                initial_deviation: c.p("initial_deviation"),
                final_deviation: c.p("final_deviation"),
                modulation_index: c.pu("modulation_index"),
            },
            cond,
        ),
        Kind::Fa => fa::real_fa(
            fa::RealProblemParameters { pop_size: c.pu("pop_size"), alpha: c.p("alpha"), beta: c.p("beta"), gamma: c.p("gamma"), delta: c.p("delta") },
            cond,
        ),
        Kind::Bh => bh::real_bh(bh::RealProblemParameters { num_particles: c.pu("num_particles") }, cond),
        Kind::Cro => cro::real_cro(
            cro::RealProblemParameters {
                initial_population_size: c.pu("initial_population_size"),
                mole_coll: c.p("mole_coll"),
                kinetic_energy_lr: c.p("kinetic_energy_lr"),
                alpha: c.pu("alpha"),
                beta: c.p("beta"),
                initial_kinetic_energy: c.p("initial_kinetic_energy"),
                buffer: c.p("buffer"),
                on_wall_deviation: c.p("on_wall_deviation"),
                decomposition_deviation: c.p("decomposition_deviation"),
            },
            cond,
        ),
        Kind::GaArchive => {
            let pop = c.pu("population_size");
            Ok(Configuration::builder()
                .do_(initialization::RandomSpread::new(pop))
                .evaluate()
                .update_best_individual()
                .do_(ga::ga::<P, Global>(
                    ga::Parameters {
                        selection: selection::Tournament::new(pop, c.pu("tournament_size")),
                        crossover: recombination::UniformCrossover::new_insert_both(c.p("pc")),
                        pm: c.p("pm"),
                        mutation: mutation::NormalMutation::new_dev(c.p("deviation")),
                        constraints: boundary::Saturation::new(),
                        archive: Some(archive::ElitistArchiveUpdate::new(c.pu("num_elitists") as usize)),
                        replacement: mahf::components::Block::new([
                            match c.pu("replacement_kind") {
                                0 => replacement::Generational::new(pop),
                                1 => replacement::MuPlusLambda::new(pop),
                                2 => replacement::RandomReplacement::new(pop),
                                _ => replacement::Merge::new(),
                            },
                            archive::ElitistArchiveIntoPopulation::new(),
                        ]),
                    },
                    cond,
                ))
                .build())
        }
        Kind::EsArchive => {
            let pop = c.pu("population_size");
            Ok(Configuration::builder()
                .do_(initialization::RandomSpread::new(pop))
                .evaluate()
                .update_best_individual()
                .do_(es::es::<P, Global>(
                    es::Parameters {
                        selection: selection::FullyRandom::new(c.pu("lambda")),
                        mutation: mutation::NormalMutation::new_dev(c.p("deviation")),
                        constraints: boundary::Saturation::new(),
                        archive: Some(archive::ElitistArchiveUpdate::new(c.pu("num_elitists") as usize)),
                        replacement: mahf::components::Block::new([
                            match c.pu("replacement_kind") {
                                0 => replacement::MuPlusLambda::new(pop),
                                1 => replacement::RandomReplacement::new(pop),
                                2 => replacement::DiscardOffspring::new(),
                                _ => replacement::Generational::new(pop),
                            },
                            archive::ElitistArchiveIntoPopulation::new(),
                        ]),
                    },
                    cond,
                ))
                .build())
        }
        Kind::Measures => {
            use mahf::components::diversity::{DimensionWiseDiversity, DistanceToAveragePointDiversity, PairwiseDistanceDiversity, TrueDiversity};
            let (dev, rm) = (c.p("deviation"), c.p("rm"));
            Ok(Configuration::builder()
                .do_(initialization::RandomSpread::new(c.pu("population_size")))
                .evaluate()
                .update_best_individual()
                .while_(cond, move |b| {
                    b.do_(mutation::NormalMutation::new(dev, rm))
                        .do_(boundary::Saturation::new())
                        .evaluate()
                        .update_best_individual()
                        .do_(DimensionWiseDiversity::new())
                        .do_(PairwiseDistanceDiversity::new())
                        .do_(TrueDiversity::new())
                        .do_(DistanceToAveragePointDiversity::new())
                })
                .build())
        }
        Kind::BoundaryMix => {
            let (seed, max, kind) = (c.seed, c.pu("mix_max") as usize, c.pu("boundary_kind"));
            Ok(Configuration::builder()
                .do_(initialization::RandomSpread::new(1))
                .evaluate()
                .update_best_individual()
                .while_(cond, move |b| {
                    b.do_(Box::new(BoundaryPopulation { seed, max, avoid_upper: kind >= 2 }))
                        .do_(match kind {
                            0 => boundary::Saturation::new(),
                            1 => boundary::Toroidal::new(),
                            2 => boundary::Mirror::new(),
                            _ => boundary::CompleteOneTailedNormalCorrection::new(),
                        })
                        .evaluate()
                        .update_best_individual()
                })
                .build())
        }
        Kind::FailMutation => {
            let (factor, limit) = (c.p("factor"), c.p("limit"));
            Ok(Configuration::builder()
                .do_(initialization::RandomSpread::new(c.pu("population_size")))
                .evaluate()
                .update_best_individual()
                .while_(cond, move |b| b.do_(Box::new(CheckedScaling { factor, limit })).evaluate().update_best_individual())
                .build())
        }
        Kind::DeVariants => {
            use mahf::components::recombination::de::{DEBinomialCrossover, DEExponentialCrossover};
            use mahf::components::selection::de::{DEBest, DECurrentToBest, DERand};
            let (pop, y) = (c.pu("population_size"), c.pu("y"));
            Ok(Configuration::builder()
                .do_(initialization::RandomSpread::new(pop))
                .evaluate()
                .update_best_individual()
                .do_(de::de::<P, Global>(
                    de::Parameters {
                        selection: match c.pu("selection_kind") {
                            0 => DEBest::new(y)?,
                            1 => DERand::new(y)?,
                            _ => DECurrentToBest::new(y)?,
                        },
                        mutation: mutation::de::DEMutation::new(y, c.p("f"))?,
                        crossover: if c.pu("crossover_kind") == 0 { DEBinomialCrossover::new(c.p("pc")) } else { DEExponentialCrossover::new(c.p("pc")) },
                        constraints: if c.pu("boundary_kind") == 0 { boundary::Saturation::new() } else { boundary::Toroidal::new() },
                        replacement: replacement::KeepBetterAtIndex::new(),
                    },
                    cond,
                ))
                .build())
        }
        Kind::GaVariants => {
            let pop = c.pu("population_size");
            let selection = match c.pu("selection_kind") {
                0 => selection::Tournament::new(pop, c.pu("tournament_size")),
                1 => selection::FullyRandom::new(pop),
                2 => selection::RouletteWheel::new(pop, 0.5),
                3 => selection::StochasticUniversalSampling::new(pop, 0.5),
                4 => selection::LinearRank::new(pop),
                5 => selection::ExponentialRank::new(pop, 0.5)?,
                _ => selection::RandomWithoutRepetition::new(pop),
            };
            let crossover = match c.pu("crossover_kind") {
                0 => recombination::UniformCrossover::new(c.p("pc"), c.pu("insert_both") == 1),
                1 => recombination::NPointCrossover::new(1 + c.pu("crossover_points") as usize, c.p("pc"), c.pu("insert_both") == 1),
                _ => recombination::ArithmeticCrossover::new(c.p("pc"), c.pu("insert_both") == 1),
            };
            let mutation = match c.pu("mutation_kind") {
                0 => mutation::NormalMutation::new(c.p("deviation"), c.p("rm")),
                1 => mutation::UniformMutation::new(c.p("deviation"), c.p("rm")),
                _ => mutation::PartialRandomSpread::new(c.p("rm")),
            };
            Ok(Configuration::builder()
                .do_(initialization::RandomSpread::new(pop))
                .evaluate()
                .update_best_individual()
                .do_(ga::ga::<P, Global>(
                    ga::Parameters {
                        selection,
                        crossover,
                        pm: c.p("pm"),
                        mutation,
                        constraints: if c.pu("boundary_kind") == 0 { boundary::Saturation::new() } else { boundary::Toroidal::new() },
                        archive: None,
                        replacement: match c.pu("replacement_kind") {
                            0 => replacement::Generational::new(pop),
                            1 => replacement::MuPlusLambda::new(pop),
                            _ => replacement::RandomReplacement::new(pop),
                        },
                    },
                    cond,
                ))
                .build())
        }
        other => Err(eyre::eyre!("harness: {other:?} is not a real-valued template")),
    }
}

pub fn build_bin<P>(c: &TCase, cond: Box<dyn Condition<P>>) -> ExecResult<Configuration<P>>
where
    P: HProblem + VectorProblem<Element = bool>,
{
    match c.kind {
        Kind::BinaryGa => ga::binary_ga(
            ga::BinaryProblemParameters {
                population_size: c.pu("population_size"),
                tournament_size: c.pu("tournament_size"),
                rm: c.p("rm"),
                pc: c.p("pc"),
                pm: c.p("pm"),
            },
            cond,
        ),
        Kind::EvalMix => {
            let max = c.pu("mix_max") as usize;
            Ok(Configuration::builder()
                .do_(Box::new(MixedPopulation { seed: c.seed, max, in_loop: false }))
                .evaluate()
                .update_best_individual()
                .while_(cond, |b| b.do_(Box::new(MixedPopulation { seed: c.seed, max, in_loop: true })).evaluate().update_best_individual())
                .build())
        }
        other => Err(eyre::eyre!("harness: {other:?} is not a binary template")),
    }
}

pub fn build_perm<P>(c: &TCase, cond: Box<dyn Condition<P>>) -> ExecResult<Configuration<P>>
where
    P: HProblem + VectorProblem<Element = usize> + TravellingSalespersonProblem,
{
    match c.kind {
        Kind::BigInit => Ok(Configuration::builder()
            .do_(initialization::RandomPermutation::new(c.pu("population_size")))
            .evaluate()
            .update_best_individual()
            .while_(cond, |b| b.evaluate().update_best_individual())
            .build()),
        Kind::PermSa => sa::permutation_sa(sa::PermutationProblemParameters { t_0: c.p("t_0"), alpha: c.p("alpha"), num_swap: c.pu("num_swap") }, cond),
        Kind::PermLs => ls::permutation_ls(ls::PermutationProblemParameters { num_neighbors: c.pu("num_neighbors"), num_swap: c.pu("num_swap") }, cond),
        Kind::PermIls => ils::permutation_ils(
            ils::PermutationProblemParameters {
                ls_params: ls::PermutationProblemParameters { num_neighbors: c.pu("num_neighbors"), num_swap: c.pu("num_swap") },
                ls_condition: LessThanN::iterations(c.pu("inner_iterations")),
            },
            cond,
        ),
        Kind::PermRs => rs::permutation_rs(cond),
        Kind::PermRw => rw::permutation_random_walk(rw::PermutationProblemParameters { num_swap: c.pu("num_swap") }, cond),
        Kind::AntSystem => aco::ant_system(
            aco::ASParameters::verif_new(
                c.pu("num_ants") as usize,
                c.p("alpha"),
                c.p("beta"),
                c.p("default_pheromones"),
                c.p("evaporation"),
                c.p("decay_coefficient"),
            ),
            cond,
        ),
        Kind::Mmas => aco::max_min_ant_system(
            aco::MMASParameters::verif_new(
                c.pu("num_ants") as usize,
                c.p("alpha"),
                c.p("beta"),
                c.p("default_pheromones"),
                c.p("evaporation"),
                c.p("max_pheromones"),
                c.p("min_pheromones"),
            ),
            cond,
        ),
        other => Err(eyre::eyre!("harness: {other:?} is not a permutation template")),
    }
}

// ---------------------------------------------------------------------------------------------
// generation of valid parameters (documented ranges, boundary values included)

fn prob(g: &mut Gen) -> f64 {
    match g.below(6) {
        0 => 0.0,
        1 => 1.0,
        _ => g.f64(),
    }
}

pub struct GenOpts {
    pub penalty: bool,
    pub max_iters: u32,
    pub evaluations_term: bool,
    pub log: bool,
}

pub fn gen_case(g: &mut Gen, kind: Kind, o: &GenOpts) -> TCase {
    let mut p: BTreeMap<String, f64> = BTreeMap::new();
    let mut set = |k: &str, v: f64| {
        p.insert(k.to_string(), v);
    };
    let penalty = o.penalty && kind.tolerates_infinite();
    let problem = match kind.family() {
        Family::Real => ProblemSpec::Real(gen_real(g, penalty, 5)),
        Family::Bin => ProblemSpec::Bin(gen_bin(g, penalty)),
        // swap mutation needs 2 < num_swap < dimension
        Family::Perm if kind == Kind::BigInit => ProblemSpec::Tsp(gen_tsp(g, false, 64, 64, false)),
        Family::Perm => ProblemSpec::Tsp(gen_tsp(g, penalty, 4, 8, false)),
        Family::Tsp => {
            let extreme = g.chance(0.3);
            // 2..8 cities; a single city is a (degenerate, valid) instance, too
            let min = if g.chance(0.03) { 1 } else { 2 };
            ProblemSpec::Tsp(gen_tsp(g, false, min, if min == 1 { 1 } else { 8 }, extreme))
        }
    };
    let width = match &problem {
        ProblemSpec::Real(r) => r.hi - r.lo,
        _ => 1.0,
    };
    let dim = match &problem {
        ProblemSpec::Real(r) => r.dim,
        ProblemSpec::Bin(b) => b.dim,
        ProblemSpec::Tsp(t) => t.dim,
    };
    let dev = |g: &mut Gen| width * *g.pick(&[0.001, 0.01, 0.1, 0.5, 2.0]);
    match kind {
        Kind::BinaryGa | Kind::RealGa | Kind::GaArchive => {
            let pop = 1 + g.below(12) as u32;
            set("population_size", pop as f64);
            set("tournament_size", if g.chance(0.3) { pop as f64 } else { (1 + g.below(pop as usize)) as f64 });
            set("pc", prob(g));
            set("pm", prob(g));
            if kind == Kind::BinaryGa {
                set("rm", prob(g));
            } else {
                set("deviation", dev(g));
            }
            if kind == Kind::GaArchive {
                set("num_elitists", *g.pick(&[0.0, 1.0, 2.0, 5.0, 20.0]));
                set("replacement_kind", g.below(4) as f64);
            }
        }
        Kind::Es | Kind::EsArchive => {
            set("population_size", (1 + g.below(8)) as f64);
            set("lambda", (1 + g.below(12)) as f64);
            set("deviation", dev(g));
            if kind == Kind::EsArchive {
                set("num_elitists", *g.pick(&[0.0, 1.0, 2.0, 5.0, 20.0]));
                set("replacement_kind", g.below(4) as f64);
            }
        }
        Kind::De => {
            let y = 1 + g.below(2) as u32;
            set("y", y as f64);
            set("population_size", (2 * y as usize + g.below(10)) as f64);
            set("f", match g.below(5) { 0 => 0.0, 1 => 2.0, _ => g.f64_in(0.0, 2.0) });
            set("pc", prob(g));
        }
        Kind::Measures => {
            // populations on both sides of any plausible size threshold (16, 32, 64)
            set("population_size", if g.chance(0.6) { (32 + g.below(49)) as f64 } else { (1 + g.below(31)) as f64 });
            set("deviation", width * *g.pick(&[0.01, 0.1, 0.5]));
            set("rm", prob(g));
        }
        Kind::BoundaryMix => {
            set("mix_max", (1 + g.below(8)) as f64);
            set("boundary_kind", g.below(4) as f64);
        }
        Kind::FailMutation => {
            set("population_size", (1 + g.below(6)) as f64);
            // growth by 10 % .. 100 % per pass against a limit of 1 .. 4 domain widths: the
            // validation fails within a few passes, at whatever coordinate gets there first
            set("factor", *g.pick(&[0.9, 1.1, 1.5, 2.0, -1.7]));
            set("limit", width * *g.pick(&[0.6, 1.0, 4.0]));
        }
        Kind::DeVariants => {
            let y = 1 + g.below(2) as u32;
            set("y", y as f64);
            // DERand draws 2y+1, DECurrentToBest 2y-1 others: keep every variant well-formed
            set("population_size", (2 * y as usize + 1 + g.below(9)) as f64);
            set("f", g.f64_in(0.0, 2.0));
            set("pc", prob(g));
            set("selection_kind", g.below(3) as f64);
            set("crossover_kind", g.below(2) as f64);
            set("boundary_kind", g.below(2) as f64);
        }
        Kind::GaVariants => {
            let pop = 1 + g.below(12) as u32;
            set("population_size", pop as f64);
            set("tournament_size", (1 + g.below(pop as usize)) as f64);
            set("pc", prob(g));
            set("pm", prob(g));
            set("rm", prob(g));
            set("deviation", dev(g));
            set("selection_kind", g.below(7) as f64);
            set("crossover_kind", g.below(3) as f64);
            set("crossover_points", g.below(3) as f64);
            set("insert_both", g.below(2) as f64);
            set("mutation_kind", g.below(3) as f64);
            set("boundary_kind", g.below(2) as f64);
            set("replacement_kind", g.below(3) as f64);
        }
        Kind::EvalMix => {
            // mostly small; some populations are far larger than any window or batch size a
            // component might use internally (dozens of duplicates in flight at once)
            set("mix_max", if g.chance(0.2) { (40 + g.below(60)) as f64 } else { (1 + g.below(8)) as f64 });
        }
        Kind::BigInit => {
            set("population_size", (200 + g.below(313)) as f64);
        }
        Kind::Pso => {
            set("num_particles", (1 + g.below(12)) as f64);
            // boundary weights (exactly 0, exactly 1, start == end) in a fifth of the cases
            let sw = if g.chance(0.2) { *g.pick(&[0.0, 1.0]) } else { g.f64_in(0.0, 1.2) };
            set("start_weight", sw);
            set("end_weight", if g.chance(0.2) { *g.pick(&[0.0, 1.0, sw]) } else { g.f64_in(0.0, 1.2) });
            set("c_one", if g.chance(0.25) { 0.0 } else { g.f64_in(0.0, 3.0) });
            set("c_two", if g.chance(0.25) { 0.0 } else { g.f64_in(0.0, 3.0) });
            set("v_max", width * *g.pick(&[0.001, 0.01, 0.1, 1.0, 10.0]));
            if g.chance(0.25) {
                set("update_weight", g.f64_in(0.0, 1.2));
            }
        }
        Kind::RealSa | Kind::PermSa => {
            set("t_0", *g.pick(&[0.001, 1.0, 10.0, 100.0]));
            set("alpha", match g.below(4) { 0 => 0.0, 1 => 0.999, _ => g.f64_in(0.0, 0.999) });
            if kind == Kind::RealSa {
                set("deviation", dev(g));
            } else {
                set("num_swap", (3 + g.below(dim - 3)) as f64);
            }
        }
        Kind::RealLs | Kind::RealIls => {
            set("n_neighbors", (1 + g.below(8)) as f64);
            set("deviation", dev(g));
            if kind == Kind::RealIls {
                set("inner_iterations", g.below(5) as f64);
            }
        }
        Kind::PermLs | Kind::PermIls => {
            set("num_neighbors", (1 + g.below(8)) as f64);
            set("num_swap", (3 + g.below(dim - 3)) as f64);
            if kind == Kind::PermIls {
                set("inner_iterations", g.below(5) as f64);
            }
        }
        Kind::RealRs | Kind::PermRs => {}
        Kind::RealRw => set("deviation", dev(g)),
        Kind::PermRw => set("num_swap", (3 + g.below(dim - 3)) as f64),
        Kind::Iwo => {
            let init = 1 + g.below(6) as u32;
            set("initial_population_size", init as f64);
            set("max_population_size", (init as usize + g.below(8)) as f64);
            let min_seeds = g.below(3) as u32;
            set("min_number_of_seeds", min_seeds as f64);
            set("max_number_of_seeds", (min_seeds as usize + g.below(5)) as f64);
            let d0 = width * *g.pick(&[0.001, 0.01, 0.1]);
            set("initial_deviation", d0);
            set("final_deviation", d0 * g.f64_in(1.5, 20.0));
            set("modulation_index", (1 + g.below(4)) as f64);
        }
        Kind::Fa => {
            set("pop_size", (1 + g.below(8)) as f64);
            set("alpha", prob(g));
            set("beta", g.f64_in(0.0, 2.0));
            set("gamma", *g.pick(&[0.0, 0.01, 1.0, 10.0]));
            set("delta", g.f64_in(0.0, 0.999));
        }
        Kind::Bh => set("num_particles", (1 + g.below(10)) as f64),
        Kind::Cro => {
            set("initial_population_size", (1 + g.below(8)) as f64);
            set("mole_coll", prob(g));
            set("kinetic_energy_lr", g.f64_in(0.0, 0.99));
            set("alpha", g.below(5) as f64);
            set("beta", *g.pick(&[0.0, 1.0, 10.0, 1000.0]));
            set("initial_kinetic_energy", *g.pick(&[0.0, 1.0, 100.0]));
            set("buffer", *g.pick(&[0.0, 1.0, 100.0]));
            set("on_wall_deviation", dev(g));
            set("decomposition_deviation", dev(g));
        }
        Kind::AntSystem | Kind::Mmas => {
            let ants = if kind == Kind::Mmas { 1 + g.below(8) } else { g.below(9) };
            set("num_ants", ants as f64);
            // exponents exactly 0 (heuristic-only / pheromone-only ants) and 1 are boundary values
            let expo = |g: &mut Gen| match g.below(8) { 0 => 0.0, 1 => 1.0, _ => g.f64_in(0.0, 5.0) };
            set("alpha", expo(g));
            set("beta", expo(g));
            set("evaporation", prob(g));
            if kind == Kind::AntSystem {
                // trails of exactly 0 are a reachable state (evaporation 1 on unused edges) and a valid start
                set("default_pheromones", if g.chance(0.1) { 0.0 } else { g.f64_in(0.01, 2.0) });
                set("decay_coefficient", g.f64_in(0.1, 10.0));
            } else {
                let min = g.f64_in(0.001, 0.5);
                let max = min + g.f64_in(0.1, 5.0);
                set("min_pheromones", min);
                set("max_pheromones", max);
                // the initial trails may lie outside the bounds; the update has to bring them in
                set("default_pheromones", match g.below(5) { 0 => max * g.f64_in(1.5, 10.0), 1 => min * g.f64_in(0.01, 0.9), _ => g.f64_in(min, max) });
            }
        }
    }
    let iters = match g.below(12) {
        0 | 1 => 0,
        2 | 3 => 1,
        // bounds n for which n * (1/n) != 1 in floating point
        4 if o.max_iters >= 40 => *g.pick(&[49u32, 98, 103, 107]),
        _ => g.below(o.max_iters as usize + 1) as u32,
    };
    let term = if o.evaluations_term && g.chance(0.3) { Term::Evaluations(g.below(200) as u32) } else { Term::Iterations(iters) };
    if let (Kind::Iwo, Term::Evaluations(_)) = (kind, term) {
        // with no seeds at all a pass evaluates nothing: an evaluation budget would never be
        // used up once all weeds tie (a legitimate endless run, not a subject of any property)
        let min = p.get("min_number_of_seeds").copied().unwrap_or(1.0).max(1.0);
        let max = p.get("max_number_of_seeds").copied().unwrap_or(1.0).max(min);
        p.insert("min_number_of_seeds".into(), min);
        p.insert("max_number_of_seeds".into(), max);
    }
    TCase {
        kind,
        params: p,
        problem,
        term,
        seed: g.u64(),
        evaluator: EvalMode::Sequential,
        fault: TFault::None,
        log: o.log && g.chance(0.5),
        clone_config: false,
        stale_state: false,
        nest: 0,
    }
}

pub fn shrink_case(c: &TCase) -> Vec<TCase> {
    let mut out = Vec::new();
    match c.term {
        Term::Iterations(n) if n > 0 => {
            out.push(TCase { term: Term::Iterations(n / 2), ..c.clone() });
            out.push(TCase { term: Term::Iterations(n - 1), ..c.clone() });
        }
        Term::Evaluations(n) if n > 0 => {
            out.push(TCase { term: Term::Evaluations(n / 2), ..c.clone() });
        }
        _ => {}
    }
    if c.log {
        out.push(TCase { log: false, ..c.clone() });
    }
    if c.clone_config {
        out.push(TCase { clone_config: false, ..c.clone() });
    }
    if c.stale_state {
        out.push(TCase { stale_state: false, ..c.clone() });
    }
    if c.nest > 0 {
        out.push(TCase { nest: c.nest - 1, ..c.clone() });
    }
    if let EvalMode::Parallel { workers, sched_seed, pct } = c.evaluator {
        if workers > 2 {
            out.push(TCase { evaluator: EvalMode::Parallel { workers: 2, sched_seed, pct }, ..c.clone() });
        }
    }
    // smaller problems
    match &c.problem {
        ProblemSpec::Real(r) => {
            if r.dim > 1 {
                out.push(TCase { problem: ProblemSpec::Real(RealSpec { dim: r.dim - 1, ..r.clone() }), ..c.clone() });
            }
            if r.penalty.is_some() {
                out.push(TCase { problem: ProblemSpec::Real(RealSpec { penalty: None, ..r.clone() }), ..c.clone() });
            }
        }
        ProblemSpec::Bin(b) => {
            if b.dim > 1 {
                out.push(TCase { problem: ProblemSpec::Bin(BinSpec { dim: b.dim - 1, ..b.clone() }), ..c.clone() });
            }
            if b.penalty.is_some() {
                out.push(TCase { problem: ProblemSpec::Bin(BinSpec { penalty: None, ..b.clone() }), ..c.clone() });
            }
        }
        ProblemSpec::Tsp(t) => {
            if t.penalty.is_some() {
                out.push(TCase { problem: ProblemSpec::Tsp(TspSpec { penalty: None, ..t.clone() }), ..c.clone() });
            }
        }
    }
    // smaller integer parameters
    for k in ["population_size", "num_particles", "pop_size", "initial_population_size", "lambda", "n_neighbors", "num_neighbors", "num_ants", "max_population_size", "inner_iterations"] {
        if let Some(v) = c.params.get(k) {
            if *v > 1.0 {
                let mut p = c.params.clone();
                p.insert(k.to_string(), (*v - 1.0).floor());
                // keep dependent constraints valid
                if k == "population_size" {
                    if let Some(t) = p.get("tournament_size").copied() {
                        if t > *v - 1.0 {
                            p.insert("tournament_size".into(), *v - 1.0);
                        }
                    }
                    if let Some(y) = p.get("y").copied() {
                        if *v - 1.0 < 2.0 * y {
                            continue;
                        }
                    }
                }
                if k == "max_population_size" && p.get("initial_population_size").copied().unwrap_or(0.0) > *v - 1.0 {
                    continue;
                }
                if k == "initial_population_size" || k == "num_ants" && c.kind == Kind::Mmas && *v - 1.0 < 1.0 {
                    // fine: lower bound 1 respected by the `> 1.0` guard
                }
                out.push(TCase { params: p, ..c.clone() });
            }
        }
    }
    out
}
