//! Harness problems: small real / binary / permutation / TSP instances with a pure reference
//! objective (optionally with penalty regions returning +inf) and call instrumentation.

use mahf::problems::{
    KnownOptimumProblem, LimitedVectorProblem, ObjectiveFunction, TravellingSalespersonProblem, VectorProblem,
};
use mahf::{Problem, SingleObjective};
use serde::{Deserialize, Serialize};
use std::ops::Range;
use std::sync::atomic::{AtomicBool, AtomicUsize, Ordering};
use std::sync::Mutex;

/// One objective-function invocation: (solution key, objective value bits).
pub type Call = (Vec<u64>, u64);

#[derive(Default)]
pub struct Instr {
    pub calls: Mutex<Vec<Call>>,
    inflight: AtomicUsize,
    pub max_inflight: AtomicUsize,
    /// yield to the shuttle scheduler at entry and exit of every objective call
    pub yield_in_objective: AtomicBool,
}

impl Instr {
    /// forget everything recorded so far (between a warm-up run and the observed run)
    pub fn reset(&self) {
        self.calls.lock().unwrap().clear();
        self.inflight.store(0, Ordering::SeqCst);
        self.max_inflight.store(0, Ordering::SeqCst);
    }
    pub fn n_calls(&self) -> usize {
        self.calls.lock().unwrap().len()
    }
    fn enter(&self) {
        let n = self.inflight.fetch_add(1, Ordering::SeqCst) + 1;
        self.max_inflight.fetch_max(n, Ordering::SeqCst);
        if self.yield_in_objective.load(Ordering::Relaxed) {
            // a zero-length sleep is a plain scheduling point (yield_now would also lower the
            // task's priority under PCT)
            shuttle::thread::sleep(std::time::Duration::from_millis(0));
        }
    }
    fn exit(&self, key: Vec<u64>, value: f64) {
        if self.yield_in_objective.load(Ordering::Relaxed) {
            shuttle::thread::sleep(std::time::Duration::from_millis(0));
        }
        self.calls.lock().unwrap().push((key, value.to_bits()));
        self.inflight.fetch_sub(1, Ordering::SeqCst);
    }
}

pub trait HProblem: Problem<Objective = SingleObjective> + ObjectiveFunction + KnownOptimumProblem + Clone + Send + Sync + 'static {
    /// The pure reference objective F (penalty regions included).
    fn reference(&self, solution: &Self::Encoding) -> f64;
    fn key(solution: &Self::Encoding) -> Vec<u64>;
    fn instr(&self) -> &Instr;
    /// A different instance of the same size and domain (what an earlier run on the same state
    /// may have been about).
    fn sibling(&self) -> Self;
    fn show(solution: &Self::Encoding) -> String;
    /// real-valued encodings expose their coordinates (swarm monitors)
    fn as_real(_solution: &Self::Encoding) -> Option<&[f64]> {
        None
    }
    /// permutation encodings expose their tour (ant-colony monitors)
    fn as_perm(_solution: &Self::Encoding) -> Option<&[usize]> {
        None
    }
    fn dimension_hint(&self) -> usize;
}

fn mix(mut h: u64, x: u64) -> u64 {
    h ^= x.wrapping_add(0x9E37_79B9_7F4A_7C15).wrapping_add(h << 6).wrapping_add(h >> 2);
    h.wrapping_mul(0xff51afd7ed558ccd)
}

fn in_penalty(key: &[u64], salt: Option<u64>) -> bool {
    match salt {
        None => false,
        Some(s) => {
            let mut h = s;
            for k in key {
                h = mix(h, *k);
            }
            (h >> 7) % 11 == 0
        }
    }
}

fn obj(v: f64) -> SingleObjective {
    SingleObjective::try_from(v).expect("harness objective is never NaN or -inf")
}

// ---- real-valued --------------------------------------------------------------------------

#[derive(Clone, Copy, Debug, Serialize, Deserialize, PartialEq)]
pub enum RealKind {
    Sphere,
    /// shifted sphere with the optimum off-centre
    Shifted,
    /// sum of |x_i| + a cosine ripple (multimodal)
    Ripple,
    /// step function (plateaus: many ties)
    Steps,
    /// the step function as a negated profit: the optimum plateau is 0.0 on one side and -0.0 on
    /// the other (equal objective values with different bit patterns)
    SignedSteps,
}

#[derive(Clone, Debug, Serialize, Deserialize, PartialEq)]
pub struct RealSpec {
    pub kind: RealKind,
    pub dim: usize,
    pub lo: f64,
    pub hi: f64,
    pub penalty: Option<u64>,
    pub name: String,
    /// the unit the objective is measured in: values are multiplied by this factor (tiny
    /// values: every improvement is far below f64::EPSILON in absolute terms)
    #[serde(default = "one")]
    pub scale: f64,
}

fn one() -> f64 {
    1.0
}

pub struct RealP {
    pub spec: RealSpec,
    pub instr: Instr,
}

impl RealP {
    pub fn new(spec: RealSpec) -> Self {
        RealP { spec, instr: Instr::default() }
    }
}

impl Clone for RealP {
    /// `Configuration<P>: Clone` asks for `P: Clone`; a clone starts with fresh instrumentation.
    fn clone(&self) -> Self {
        RealP::new(self.spec.clone())
    }
}

impl Problem for RealP {
    type Encoding = Vec<f64>;
    type Objective = SingleObjective;
    fn name(&self) -> &str {
        &self.spec.name
    }
}
impl VectorProblem for RealP {
    type Element = f64;
    fn dimension(&self) -> usize {
        self.spec.dim
    }
}
impl LimitedVectorProblem for RealP {
    fn domain(&self) -> Vec<Range<f64>> {
        vec![self.spec.lo..self.spec.hi; self.spec.dim]
    }
}
impl KnownOptimumProblem for RealP {
    fn known_optimum(&self) -> SingleObjective {
        obj(0.0)
    }
}
impl HProblem for RealP {
    fn reference(&self, x: &Vec<f64>) -> f64 {
        let key = Self::key(x);
        if in_penalty(&key, self.spec.penalty) {
            return f64::INFINITY;
        }
        let v = match self.spec.kind {
            RealKind::Sphere => x.iter().map(|v| v * v).sum::<f64>(),
            RealKind::Shifted => x.iter().enumerate().map(|(i, v)| (v - 0.5 - i as f64 * 0.25).powi(2)).sum::<f64>(),
            RealKind::Ripple => x.iter().map(|v| v.abs() + 0.5 * (1.0 - (3.0 * v).cos())).sum::<f64>(),
            RealKind::Steps => x.iter().map(|v| v.abs().floor()).sum::<f64>(),
            RealKind::SignedSteps => {
                let v = x.iter().map(|v| v.abs().floor()).sum::<f64>();
                if v == 0.0 && x.first().map(|f| *f < 0.0).unwrap_or(false) {
                    -0.0
                } else {
                    v
                }
            }
        };
        if v.is_nan() { f64::INFINITY } else { v * self.spec.scale }
    }
    fn sibling(&self) -> Self {
        let mut spec = self.spec.clone();
        spec.kind = match spec.kind {
            RealKind::Sphere => RealKind::Shifted,
            RealKind::Shifted => RealKind::Ripple,
            RealKind::Ripple => RealKind::Steps,
            RealKind::Steps => RealKind::SignedSteps,
            RealKind::SignedSteps => RealKind::Sphere,
        };
        RealP::new(spec)
    }
    fn key(x: &Vec<f64>) -> Vec<u64> {
        x.iter().map(|v| v.to_bits()).collect()
    }
    fn instr(&self) -> &Instr {
        &self.instr
    }
    fn show(x: &Vec<f64>) -> String {
        format!("{x:?}")
    }
    fn as_real(x: &Vec<f64>) -> Option<&[f64]> {
        Some(x)
    }
    fn dimension_hint(&self) -> usize {
        self.spec.dim
    }
}
impl ObjectiveFunction for RealP {
    fn objective(&self, x: &Vec<f64>) -> SingleObjective {
        self.instr.enter();
        let v = self.reference(x);
        self.instr.exit(Self::key(x), v);
        obj(v)
    }
}

// ---- binary ---------------------------------------------------------------------------------

#[derive(Clone, Debug, Serialize, Deserialize, PartialEq)]
pub struct BinSpec {
    pub dim: usize,
    pub penalty: Option<u64>,
    pub name: String,
    /// zero-max instead of one-max
    #[serde(default)]
    pub flip: bool,
}

pub struct BinP {
    pub spec: BinSpec,
    pub instr: Instr,
}

impl BinP {
    pub fn new(spec: BinSpec) -> Self {
        BinP { spec, instr: Instr::default() }
    }
}

impl Clone for BinP {
    /// `Configuration<P>: Clone` asks for `P: Clone`; a clone starts with fresh instrumentation.
    fn clone(&self) -> Self {
        BinP::new(self.spec.clone())
    }
}

impl Problem for BinP {
    type Encoding = Vec<bool>;
    type Objective = SingleObjective;
    fn name(&self) -> &str {
        &self.spec.name
    }
}
impl VectorProblem for BinP {
    type Element = bool;
    fn dimension(&self) -> usize {
        self.spec.dim
    }
}
impl KnownOptimumProblem for BinP {
    fn known_optimum(&self) -> SingleObjective {
        obj(0.0)
    }
}
impl HProblem for BinP {
    fn reference(&self, x: &Vec<bool>) -> f64 {
        if in_penalty(&Self::key(x), self.spec.penalty) {
            return f64::INFINITY;
        }
        // one-max as a minimisation problem, with a weight on the leading bit
        x.iter().enumerate().map(|(i, b)| if *b != self.spec.flip { 0.0 } else if i == 0 { 2.0 } else { 1.0 }).sum()
    }
    fn sibling(&self) -> Self {
        BinP::new(BinSpec { flip: !self.spec.flip, ..self.spec.clone() })
    }
    fn key(x: &Vec<bool>) -> Vec<u64> {
        x.iter().map(|b| *b as u64).collect()
    }
    fn instr(&self) -> &Instr {
        &self.instr
    }
    fn show(x: &Vec<bool>) -> String {
        x.iter().map(|b| if *b { '1' } else { '0' }).collect()
    }
    fn dimension_hint(&self) -> usize {
        self.spec.dim
    }
}
impl ObjectiveFunction for BinP {
    fn objective(&self, x: &Vec<bool>) -> SingleObjective {
        self.instr.enter();
        let v = self.reference(x);
        self.instr.exit(Self::key(x), v);
        obj(v)
    }
}

// ---- permutation / TSP ----------------------------------------------------------------------

/// Vectors of floats in replay files: JSON has no infinities, they are written as strings.
mod float_vec {
    use serde::{Deserialize, Deserializer, Serialize, Serializer};
    #[derive(Serialize, Deserialize)]
    #[serde(untagged)]
    enum F {
        N(f64),
        S(String),
    }
    pub fn serialize<S: Serializer>(v: &[f64], s: S) -> Result<S::Ok, S::Error> {
        let w: Vec<F> = v.iter().map(|x| if x.is_finite() { F::N(*x) } else { F::S(format!("{x}")) }).collect();
        w.serialize(s)
    }
    pub fn deserialize<'de, D: Deserializer<'de>>(d: D) -> Result<Vec<f64>, D::Error> {
        let w: Vec<F> = Vec::deserialize(d)?;
        w.into_iter().map(|f| match f { F::N(x) => Ok(x), F::S(s) => s.parse::<f64>().map_err(serde::de::Error::custom) }).collect()
    }
}

#[derive(Clone, Debug, Serialize, Deserialize, PartialEq)]
pub struct TspSpec {
    pub dim: usize,
    /// symmetric distance matrix, row-major, zero diagonal
    #[serde(with = "float_vec")]
    pub dist: Vec<f64>,
    pub penalty: Option<u64>,
    pub name: String,
}

pub struct TspP {
    pub spec: TspSpec,
    pub instr: Instr,
}

impl TspP {
    pub fn new(spec: TspSpec) -> Self {
        TspP { spec, instr: Instr::default() }
    }
    pub fn d(&self, a: usize, b: usize) -> f64 {
        self.spec.dist[a * self.spec.dim + b]
    }
}

impl Clone for TspP {
    /// `Configuration<P>: Clone` asks for `P: Clone`; a clone starts with fresh instrumentation.
    fn clone(&self) -> Self {
        TspP::new(self.spec.clone())
    }
}

impl Problem for TspP {
    type Encoding = Vec<usize>;
    type Objective = SingleObjective;
    fn name(&self) -> &str {
        &self.spec.name
    }
}
impl VectorProblem for TspP {
    type Element = usize;
    fn dimension(&self) -> usize {
        self.spec.dim
    }
}
impl KnownOptimumProblem for TspP {
    fn known_optimum(&self) -> SingleObjective {
        obj(0.0)
    }
}
impl TravellingSalespersonProblem for TspP {
    fn distance(&self, edge: (usize, usize)) -> f64 {
        self.d(edge.0, edge.1)
    }
}
impl HProblem for TspP {
    fn reference(&self, x: &Vec<usize>) -> f64 {
        if in_penalty(&Self::key(x), self.spec.penalty) {
            return f64::INFINITY;
        }
        if x.is_empty() {
            return 0.0;
        }
        let n = self.spec.dim;
        let at = |i: usize| x[i] % n.max(1);
        let mut len = 0.0;
        for i in 0..x.len() {
            len += self.d(at(i), at((i + 1) % x.len()));
        }
        len
    }
    fn sibling(&self) -> Self {
        // the same map on another scale, every road travelled in the opposite direction: every
        // tour has another length
        let n = self.spec.dim;
        let mut dist = vec![0.0; n * n];
        // ... and the cities renumbered (city a of this map is city a+1 of the other): whatever a
        // component derived from the other instance's distances is wrong for this one
        for a in 0..n {
            for b in 0..n {
                dist[a * n + b] = 1.5 * self.spec.dist[((b + 1) % n) * n + (a + 1) % n];
            }
        }
        TspP::new(TspSpec { dist, ..self.spec.clone() })
    }
    fn key(x: &Vec<usize>) -> Vec<u64> {
        x.iter().map(|v| *v as u64).collect()
    }
    fn instr(&self) -> &Instr {
        &self.instr
    }
    fn show(x: &Vec<usize>) -> String {
        format!("{x:?}")
    }
    fn as_perm(x: &Vec<usize>) -> Option<&[usize]> {
        Some(x)
    }
    fn dimension_hint(&self) -> usize {
        self.spec.dim
    }
}
impl ObjectiveFunction for TspP {
    fn objective(&self, x: &Vec<usize>) -> SingleObjective {
        self.instr.enter();
        let v = self.reference(x);
        self.instr.exit(Self::key(x), v);
        obj(v)
    }
}

// ---- generation -----------------------------------------------------------------------------

use crate::rng::Gen;

pub fn gen_real(g: &mut Gen, penalty: bool, max_dim: usize) -> RealSpec {
    let kind = *g.pick(&[RealKind::Sphere, RealKind::Shifted, RealKind::Ripple, RealKind::Steps, RealKind::SignedSteps]);
    let (lo, hi) = *g.pick(&[(-5.0, 5.0), (-1.0, 1.0), (0.0, 10.0), (-100.0, 50.0), (-0.001, 0.002)]);
    RealSpec {
        kind,
        dim: 1 + g.below(max_dim),
        lo,
        hi,
        penalty: if penalty { Some(g.u64()) } else { None },
        name: format!("real{}", g.below(1000)),
        scale: if g.chance(0.15) { *g.pick(&[1e-20, 1e-12, 1e15]) } else { 1.0 },
    }
}

pub fn gen_bin(g: &mut Gen, penalty: bool) -> BinSpec {
    BinSpec { dim: 1 + g.below(10), penalty: if penalty { Some(g.u64()) } else { None }, name: format!("bin{}", g.below(1000)), flip: false }
}

pub fn gen_tsp(g: &mut Gen, penalty: bool, min_dim: usize, max_dim: usize, extreme: bool) -> TspSpec {
    let dim = min_dim + g.below(max_dim - min_dim + 1);
    let mut dist = vec![0.0; dim * dim];
    let scale_mode = g.below(4);
    let asym = g.chance(0.3);
    // the unit of length is arbitrary: some instances measure the same distances in units
    // 1e12..1e17 times smaller or larger (tour lengths far above 1/epsilon or far below epsilon)
    let unit = if extreme && g.chance(0.2) { 10f64.powf(g.f64_in(12.0, 17.0) * if g.chance(0.5) { 1.0 } else { -1.0 }) } else { 1.0 };
    for a in 0..dim {
        for b in (a + 1)..dim {
            let mut d = match scale_mode {
                0 => 1.0 + g.below(9) as f64,
                1 => g.f64_in(0.1, 10.0),
                2 => 1.0, // all equal: maximal ties
                _ => 10f64.powf(g.f64_in(-3.0, 3.0)),
            };
            if extreme && g.chance(0.3) {
                d *= 10f64.powf(g.f64_in(-6.0, 6.0));
            }
            d *= unit;
            dist[a * dim + b] = d;
            // some instances are asymmetric (a legal travelling-salesperson problem)
            dist[b * dim + a] = if asym && g.chance(0.4) { d * g.f64_in(0.3, 3.0) } else { d };
        }
    }
    // sparse maps: a missing road is an infinite distance (tours over it are infeasible, their
    // length is +inf); only where the caller asked for extreme instances
    if extreme && dim >= 3 && g.chance(0.15) {
        let missing = 1 + g.below(dim);
        for _ in 0..missing {
            let (a, b) = (g.below(dim), g.below(dim));
            if a != b {
                dist[a * dim + b] = f64::INFINITY;
                dist[b * dim + a] = f64::INFINITY;
            }
        }
    }
    TspSpec { dim, dist, penalty: if penalty { Some(g.u64()) } else { None }, name: format!("tsp{}", g.below(1000)) }
}
