//! The step observer: monitors for C05, C06, C07, C16, C18, C19, C20 evaluated after every
//! component execution / loop event of a template run.

use super::problems::*;
use super::templates::*;
use crate::framework::{bump, Counters, Violation};
use crate::rng::Fp;
use mahf::components::archive::ElitistArchive;
use mahf::components::control_flow::Loop;
use mahf::components::generative::PheromoneMatrix;
use mahf::components::misc::cro::{ChemicalReaction, EnergyBuffer};
use mahf::components::swarm::pso::{BestParticle, BestParticles, InertiaWeight, ParticleVelocities, ParticleVelocitiesUpdate};
use mahf::identifier::Global;
use mahf::lens::ValueOf;
use mahf::state::common::{BestIndividual, Evaluations, Iterations, Populations, Progress};
use mahf::verif::{LoopEvent, Observer};
use mahf::{Component, ExecResult, Individual, State, StateRegistry};
use std::collections::HashMap;
use std::sync::{Arc, Mutex};

/// (solution key, objective bits if evaluated)
pub type KV = (Vec<u64>, Option<u64>);

fn kv<P: HProblem>(i: &Individual<P>) -> KV {
    (P::key(i.solution()), i.get_objective().map(|o| o.value().to_bits()))
}

fn val(k: &KV) -> f64 {
    k.1.map(f64::from_bits).unwrap_or(f64::NAN)
}

#[derive(Default)]
pub struct ObsData {
    /// (property, violation); at most one per property and class
    pub violations: Vec<(&'static str, Violation)>,
    pub counters: Counters,
    pub steps: u64,
    pub fp: Fp,
    pub step_index: u32,
    pub injected: bool,
    pub calls_in_last_pass: u64,
    pub passes_main: u32,
}

impl ObsData {
    pub fn violate(&mut self, prop: &'static str, class: impl Into<String>, msg: impl Into<String>) {
        let class = class.into();
        if self.violations.iter().any(|(p, v)| *p == prop && v.class == class) {
            return;
        }
        if self.violations.len() < 64 {
            self.violations.push((prop, Violation::new(class, msg)));
        }
    }
    pub fn probe(&mut self, name: &str) {
        bump(&mut self.counters, &format!("probe:{name}"), 1);
    }
}

pub enum Pre {
    None,
    Eval { pop: Option<Vec<Vec<u64>>>, evals: Option<u32>, calls: usize },
    Best { best: Option<KV>, pop: Vec<KV> },
    ArchiveUpdate { archive: Vec<KV>, pop: Vec<KV> },
    ArchiveInto { archive: Vec<KV>, pop: Vec<KV> },
    Velocity { xs: Vec<Vec<f64>>, vs: Vec<Vec<f64>>, w: f64, xps: Vec<Vec<f64>>, xg: Vec<f64> },
    PersonalBest { before: Vec<KV>, cand: Vec<KV> },
    Pheromone { pm: Vec<f64>, pop: Vec<(Vec<usize>, Option<f64>)> },
    Cro { energy: f64, scale: f64, finite: bool, pairs: Vec<(Vec<u64>, u64)>, height: usize, n_reactants: usize, n_products: usize },
}

struct Open {
    kind: String,
    pre: Pre,
    evals: Option<u32>,
    calls: usize,
}

pub struct Obs<P: HProblem> {
    pub data: Arc<Mutex<ObsData>>,
    pub case: Arc<TCase>,
    kinds: HashMap<(usize, usize), String>,
    open: Vec<Open>,
    loop_depth: u32,
    pass_heights: Vec<usize>,
    calls_at_pass_begin: usize,
    /// per particle: minimum objective value it was ever evaluated at
    pso_hist_min: Vec<f64>,
    swarm_ready: bool,
    /// the SwarmResize fault changed the population behind the swarm components' back
    resized: bool,
    archive_updated: bool,
    _p: std::marker::PhantomData<fn() -> P>,
}

fn is_container(kind: &str) -> bool {
    matches!(kind, "Block" | "Loop" | "Branch" | "Scope")
}

/// All registries from the innermost scope outwards.
fn levels<'s, 'a>(state: &'s StateRegistry<'a>) -> Vec<&'s StateRegistry<'a>> {
    let mut v = Vec::new();
    let mut cur = Some(state);
    while let Some(r) = cur {
        v.push(r);
        cur = r.parent();
    }
    v
}

fn pop_kvs<P: HProblem>(pop: &[Individual<P>]) -> Vec<KV> {
    pop.iter().map(kv::<P>).collect()
}

/// Purely relative comparison for sums of non-negative terms (no cancellation, so the computed
/// value is within a few ulps of the exact one at any magnitude; sub-normal results excepted).
fn rel_close_nonneg(a: f64, b: f64, tol: f64) -> bool {
    if a == b {
        return true;
    }
    if !a.is_finite() || !b.is_finite() {
        return false;
    }
    (a - b).abs() <= tol * a.abs().max(b.abs()) + 1e-300
}

thread_local! {
    /// Set while a harness scope whose state-init hook registered a surrogate evaluator (one that
    /// assigns values without calling the objective function) is open: the evaluation steps
    /// inside it are not evaluations of the problem's objective.
    pub static SURROGATE_SCOPE: std::cell::Cell<bool> = const { std::cell::Cell::new(false) };
}

/// Bit pattern with the two zeros identified: -0.0 and 0.0 are the same objective value, and
/// which of them a memory holds after a tie is not determined by the properties.
pub fn zbits(v: f64) -> u64 {
    if v == 0.0 {
        0
    } else {
        v.to_bits()
    }
}

fn rel_close(a: f64, b: f64, tol: f64) -> bool {
    if a == b {
        return true;
    }
    if !a.is_finite() || !b.is_finite() {
        return false;
    }
    (a - b).abs() <= tol * (1.0 + a.abs().max(b.abs()))
}

fn sorted_vals(v: &[KV]) -> Vec<f64> {
    let mut x: Vec<f64> = v.iter().map(val).collect();
    x.sort_by(|a, b| a.total_cmp(b));
    x
}

fn pm_dump(pm: &PheromoneMatrix, n: usize) -> Vec<f64> {
    let mut out = Vec::with_capacity(n * n);
    for a in 0..n {
        out.extend_from_slice(&pm[a][..n]);
    }
    out
}

impl<P: HProblem> Obs<P> {
    pub fn new(case: Arc<TCase>, data: Arc<Mutex<ObsData>>) -> Self {
        Obs {
            data,
            case,
            kinds: HashMap::new(),
            open: Vec::new(),
            loop_depth: 0,
            pass_heights: Vec::new(),
            calls_at_pass_begin: 0,
            pso_hist_min: Vec::new(),
            swarm_ready: false,
            resized: false,
            archive_updated: false,
            _p: std::marker::PhantomData,
        }
    }

    fn kind_of(&mut self, child: &dyn Component<P>) -> String {
        // key: (data pointer, vtable pointer) - zero-sized components all share one data address
        let raw: *const dyn Component<P> = child;
        let addr: (usize, usize) = unsafe { std::mem::transmute(raw) };
        if let Some(k) = self.kinds.get(&addr) {
            return k.clone();
        }
        let text = ron::ser::to_string_pretty(child, ron::ser::PrettyConfig::default().struct_names(true)).unwrap_or_else(|_| "Unserialisable".into());
        let head: String = if text.starts_with('[') {
            "Block".to_string()
        } else {
            text.chars().take_while(|c| c.is_alphanumeric() || *c == '_').collect()
        };
        self.kinds.insert(addr, head.clone());
        head
    }

    /// C05: every evaluated individual anywhere in the state carries F(solution).
    pub fn audit_objectives(&self, problem: &P, state: &State<P>, after: &str, d: &mut ObsData) {
        let tname = self.case.kind.name();
        let check = |i: &Individual<P>, place: &str, d: &mut ObsData| {
            if let Some(o) = i.get_objective() {
                let f = problem.reference(i.solution());
                if o.value().to_bits() != f.to_bits() {
                    d.violate(
                        "C05",
                        format!("stale-objective in={place} after={after}"),
                        format!("after step {after} (template {tname}): an individual in {place} carries objective {} but F({}) = {f}", o.value(), P::show(i.solution())),
                    );
                }
            }
        };
        let mut unevaluated = 0;
        let mut audited = 0u64;
        for reg in levels(state) {
            if reg.contains_at_top::<Populations<P>>() {
                if let Ok(pops) = reg.try_borrow::<Populations<P>>() {
                    for depth in 0..pops.len() {
                        for i in pops.peek(depth) {
                            audited += 1;
                            if !i.is_evaluated() {
                                unevaluated += 1;
                            }
                            check(i, "population-stack", d);
                        }
                    }
                }
            }
            if reg.contains_at_top::<BestIndividual<P>>() {
                if let Ok(b) = reg.try_borrow::<BestIndividual<P>>() {
                    if let Some(i) = b.as_ref() {
                        audited += 1;
                        check(i, "best-so-far", d);
                    }
                }
            }
            if reg.contains_at_top::<ElitistArchive<P>>() {
                if let Ok(a) = reg.try_borrow::<ElitistArchive<P>>() {
                    for i in a.elitists() {
                        audited += 1;
                        check(i, "elitist-archive", d);
                    }
                }
            }
            if reg.contains_at_top::<BestParticles<P, Global>>() {
                if let Ok(a) = reg.try_borrow::<BestParticles<P, Global>>() {
                    for i in a.iter() {
                        audited += 1;
                        check(i, "personal-bests", d);
                    }
                }
            }
            if reg.contains_at_top::<BestParticle<P, Global>>() {
                if let Ok(a) = reg.try_borrow::<BestParticle<P, Global>>() {
                    if let Some(i) = a.as_ref() {
                        audited += 1;
                        check(i, "global-best", d);
                    }
                }
            }
            if reg.contains_at_top::<ChemicalReaction<P>>() {
                if let Ok(a) = reg.try_borrow::<ChemicalReaction<P>>() {
                    for m in a.iter() {
                        audited += 1;
                        check(&m.best, "molecule-best", d);
                    }
                }
            }
        }
        d.steps += audited;
        if audited > 0 {
            bump(&mut d.counters, "individuals audited", audited);
        }
        if unevaluated > 0 {
            d.probe("steps leaving unevaluated individuals");
        }
    }

    pub fn snapshot_pre(&mut self, kind: &str, problem: &P, state: &State<P>) -> Pre {
        let cur_pop = || -> Option<Vec<KV>> {
            let pops = state.try_borrow::<Populations<P>>().ok()?;
            pops.get_current().map(pop_kvs::<P>)
        };
        match kind {
            "PopulationEvaluator" if SURROGATE_SCOPE.with(|f| f.get()) => Pre::None,
            "PopulationEvaluator" => Pre::Eval {
                pop: cur_pop().map(|p| p.into_iter().map(|(k, _)| k).collect()),
                evals: state.try_get_value::<Evaluations>().ok(),
                calls: problem.instr().n_calls(),
            },
            "BestIndividualUpdate" => {
                let best = state.try_borrow::<BestIndividual<P>>().ok().and_then(|b| b.as_ref().map(kv::<P>));
                Pre::Best { best, pop: cur_pop().unwrap_or_default() }
            }
            "ElitistArchiveUpdate" | "ElitistArchiveIntoPopulation" => {
                let archive = state.try_borrow::<ElitistArchive<P>>().map(|a| pop_kvs::<P>(a.elitists())).unwrap_or_default();
                let pop = cur_pop().unwrap_or_default();
                if kind == "ElitistArchiveUpdate" { Pre::ArchiveUpdate { archive, pop } } else { Pre::ArchiveInto { archive, pop } }
            }
            "OnWallIneffectiveCollisionUpdate" | "DecompositionUpdate" | "IntermolecularIneffectiveCollisionUpdate" | "SynthesisUpdate" => self.cro_pre(state),
            "ParticleVelocitiesUpdate" if self.resized => Pre::None,
            "ParticleVelocitiesUpdate" => {
                let get = || -> Option<Pre> {
                    let pops = state.try_borrow::<Populations<P>>().ok()?;
                    let xs: Vec<Vec<f64>> = pops.get_current()?.iter().map(|i| P::as_real(i.solution()).map(|s| s.to_vec())).collect::<Option<_>>()?;
                    let vs = state.try_borrow::<ParticleVelocities<Global>>().ok()?.iter().cloned().collect();
                    let w = state.try_get_value::<InertiaWeight<ParticleVelocitiesUpdate<Global>>>().ok()?;
                    let xps = state.try_borrow::<BestParticles<P, Global>>().ok()?.iter().map(|i| P::as_real(i.solution()).map(|s| s.to_vec())).collect::<Option<_>>()?;
                    let xg = state.try_borrow::<BestParticle<P, Global>>().ok()?.as_ref().and_then(|i| P::as_real(i.solution()).map(|s| s.to_vec()))?;
                    Some(Pre::Velocity { xs, vs, w, xps, xg })
                };
                get().unwrap_or(Pre::None)
            }
            "PersonalBestParticlesUpdate" => {
                let before = state.try_borrow::<BestParticles<P, Global>>().map(|a| pop_kvs::<P>(&a)).unwrap_or_default();
                Pre::PersonalBest { before, cand: cur_pop().unwrap_or_default() }
            }
            "AsPheromoneUpdate" | "MinMaxPheromoneUpdate" => {
                let n = problem.dimension_hint();
                let get = || -> Option<Pre> {
                    let pm = state.try_borrow::<PheromoneMatrix>().ok()?;
                    let pops = state.try_borrow::<Populations<P>>().ok()?;
                    let pop = pops
                        .get_current()?
                        .iter()
                        // "inversely proportional to tour length": the length of the tour in the instance
                        // at hand, not whatever value the individual carries
                        .map(|i| P::as_perm(i.solution()).map(|t| (t.to_vec(), i.get_objective().map(|_| problem.reference(i.solution())))))
                        .collect::<Option<_>>()?;
                    Some(Pre::Pheromone { pm: pm_dump(&pm, n), pop })
                };
                get().unwrap_or(Pre::None)
            }
            _ => Pre::None,
        }
    }

    fn cro_pre(&self, state: &State<P>) -> Pre {
        let (Ok(pops), Ok(reaction), Ok(buffer)) = (state.try_borrow::<Populations<P>>(), state.try_borrow::<ChemicalReaction<P>>(), state.try_get_value::<EnergyBuffer>()) else {
            return Pre::None;
        };
        if pops.len() < 3 {
            return Pre::None;
        }
        let main = pops.peek(2);
        let mut energy = buffer;
        // the magnitude the rounding of the ledger is measured against: the sum of the absolute
        // terms (no absolute floor - an objective measured in tiny units has tiny energies)
        let mut scale = buffer.abs();
        let mut finite = buffer.is_finite();
        let mut pairs = Vec::new();
        for (i, ind) in main.iter().enumerate() {
            let f = ind.get_objective().map(|o| o.value()).unwrap_or(f64::NAN);
            let ke = reaction.get(i).map(|m| m.kinetic_energy).unwrap_or(f64::NAN);
            energy += f + ke;
            scale += f.abs() + ke.abs();
            finite &= f.is_finite() && ke.is_finite();
            pairs.push((P::key(ind.solution()), ke.to_bits()));
        }
        Pre::Cro { energy, scale, finite, pairs, height: pops.len(), n_reactants: pops.peek(1).len(), n_products: pops.peek(0).len() }
    }

    fn cro_post(&self, kind: &str, pre: Pre, state: &State<P>, d: &mut ObsData) {
        let Pre::Cro { energy, scale, finite, pairs, height, n_reactants, n_products } = pre else { return };
        let (Ok(pops), Ok(reaction), Ok(buffer)) = (state.try_borrow::<Populations<P>>(), state.try_borrow::<ChemicalReaction<P>>(), state.try_get_value::<EnergyBuffer>()) else {
            return;
        };
        let tname = self.case.kind.name();
        if pops.len() + 2 != height {
            d.violate("C20", format!("cro-stack-consumption reaction={kind}"), format!("{kind} ({tname}): population stack went from {height} to {} populations (expected {})", pops.len(), height - 2));
            return;
        }
        let main = pops.current();
        if reaction.len() != main.len() {
            d.violate("C20", format!("cro-molecule-alignment reaction={kind}"), format!("{kind}: {} molecule records for {} individuals", reaction.len(), main.len()));
            return;
        }
        let mut e2 = buffer;
        let mut scale2 = buffer.abs();
        let mut fin2 = buffer.is_finite();
        let mut post = Vec::new();
        for (i, ind) in main.iter().enumerate() {
            let f = ind.get_objective().map(|o| o.value()).unwrap_or(f64::NAN);
            let ke = reaction[i].kinetic_energy;
            e2 += f + ke;
            scale2 += f.abs() + ke.abs();
            fin2 &= f.is_finite() && ke.is_finite();
            if ke < 0.0 {
                d.violate("C20", format!("cro-negative-kinetic-energy reaction={kind}"), format!("{kind}: molecule {i} has kinetic energy {ke}"));
            }
            post.push((P::key(ind.solution()), ke.to_bits()));
        }
        if buffer < 0.0 {
            d.violate("C20", format!("cro-negative-buffer reaction={kind}"), format!("{kind}: energy buffer is {buffer}"));
        }
        if finite && fin2 && energy != e2 && (energy - e2).abs() > 1e-9 * scale.max(scale2) + 1e-300 {
            d.violate("C20", format!("cro-energy-not-conserved reaction={kind}"), format!("{kind} ({tname}): total energy {energy} before, {e2} after (difference {})", e2 - energy));
        }
        let changed = post != pairs;
        d.probe(&format!("cro {kind} {}", if changed { "accepted" } else { "rejected" }));
        // pairs not involved in the reaction are the same pairs in the same order
        let lcs = {
            let (a, b) = (&pairs, &post);
            let mut t = vec![vec![0usize; b.len() + 1]; a.len() + 1];
            for i in 0..a.len() {
                for j in 0..b.len() {
                    t[i + 1][j + 1] = if a[i] == b[j] { t[i][j] + 1 } else { t[i][j + 1].max(t[i + 1][j]) };
                }
            }
            t[a.len()][b.len()]
        };
        if pairs.len() - lcs > n_reactants || post.len() - lcs > n_products.max(n_reactants) {
            d.violate(
                "C20",
                format!("cro-uninvolved-pairs-changed reaction={kind}"),
                format!("{kind}: {} (individual, molecule) pairs disappeared and {} appeared with {n_reactants} reactants and {n_products} products", pairs.len() - lcs, post.len() - lcs),
            );
        }
    }

    pub fn post(&mut self, kind: &str, pre: Pre, problem: &P, state: &State<P>, d: &mut ObsData) {
        let tname = self.case.kind.name();
        match pre {
            Pre::None => {}
            Pre::Eval { pop, evals, calls } => {
                let log = problem.instr().calls.lock().unwrap();
                let in_step: Vec<&Call> = log[calls.min(log.len())..].iter().collect();
                let after_pop: Option<Vec<KV>> = state.try_borrow::<Populations<P>>().ok().and_then(|p| p.get_current().map(pop_kvs::<P>));
                let evals_after = state.try_get_value::<Evaluations>().ok();
                match (pop, after_pop) {
                    (None, None) => {
                        d.probe("evaluation step on an empty stack");
                        if !in_step.is_empty() || evals != evals_after {
                            d.violate("C06", "evaluation-on-empty-stack", format!("({tname}) evaluation step with no population made {} objective calls, counter {evals:?} -> {evals_after:?}", in_step.len()));
                        }
                    }
                    (Some(before), Some(after)) => {
                        if before.is_empty() {
                            d.probe("evaluation step on an empty population");
                        }
                        let keys_after: Vec<&Vec<u64>> = after.iter().map(|(k, _)| k).collect();
                        if before.iter().collect::<Vec<_>>() != keys_after {
                            d.violate("C06", "evaluation-changed-population", format!("({tname}) the evaluation step changed the order or solutions of the population ({} -> {} individuals)", before.len(), after.len()));
                        } else {
                            if let Some(i) = after.iter().position(|(_, o)| o.is_none()) {
                                d.violate("C06", "evaluation-left-unevaluated", format!("({tname}) individual #{i} of {} is unevaluated after the evaluation step", after.len()));
                            }
                            let mut a: Vec<&Vec<u64>> = in_step.iter().map(|(k, _)| k).collect();
                            let mut b: Vec<&Vec<u64>> = before.iter().collect();
                            a.sort();
                            b.sort();
                            if a != b {
                                d.violate(
                                    "C06",
                                    if a.len() == b.len() { "evaluation-wrong-solutions-evaluated" } else if a.len() > b.len() { "evaluation-evaluated-more-than-once" } else { "evaluation-skipped-individuals" },
                                    format!("({tname}) population of {} individuals, {} objective calls in the step; the calls are not exactly one per individual", b.len(), a.len()),
                                );
                            }
                            for ((k, o), c) in after.iter().zip(before.iter()) {
                                let _ = c;
                                if let Some(bits) = o {
                                    // the value written must be the one the objective returned for this solution
                                    if !in_step.iter().any(|(ck, cv)| ck == k && cv == bits) && a == b {
                                        d.violate("C06", "evaluation-value-not-from-objective", format!("({tname}) an individual carries {} which the objective never returned for it in this step", f64::from_bits(*bits)));
                                    }
                                }
                            }
                            match (evals, evals_after) {
                                (Some(e0), Some(e1)) => {
                                    if e1.wrapping_sub(e0) as usize != before.len() {
                                        d.violate("C06", "evaluation-counter-advance", format!("({tname}) evaluation counter went {e0} -> {e1} for a population of {}", before.len()));
                                    }
                                }
                                _ => {}
                            }
                        }
                    }
                    (b, a) => {
                        d.violate("C06", "evaluation-changed-stack", format!("({tname}) population present before: {}, after: {}", b.is_some(), a.is_some()));
                    }
                }
            }
            Pre::Best { best, pop } => {
                let after = state.try_borrow::<BestIndividual<P>>().ok().and_then(|b| b.as_ref().map(kv::<P>));
                match (&best, &after) {
                    (None, None) => {
                        if !pop.is_empty() {
                            d.violate("C07", "best-missing-after-update", format!("({tname}) no best individual after updating from a population of {}", pop.len()));
                        }
                    }
                    (Some(_), None) => d.violate("C07", "best-lost", format!("({tname}) the best individual disappeared")),
                    (b, Some(a)) => {
                        let av = val(a);
                        if let Some(m) = pop.iter().map(val).min_by(|x, y| x.total_cmp(y)) {
                            if !(av <= m) {
                                d.violate("C07", "best-worse-than-population", format!("({tname}) best after update is {av}, the population it was updated from contains {m}"));
                            }
                        }
                        if let Some(b) = b {
                            let bv = val(b);
                            if !(av <= bv) {
                                d.violate("C07", "best-got-worse", format!("({tname}) best went from {bv} to {av}"));
                            }
                            if a != b && !(av < bv) {
                                d.violate("C07", "best-replaced-without-improvement", format!("({tname}) best individual was replaced although the candidate ({av}) is not strictly better than {bv}"));
                            }
                            if a != b {
                                d.probe("best individual improved");
                            } else if pop.iter().any(|p| val(p) == bv && *p != *b) {
                                d.probe("tie with the best not replacing it");
                            }
                        } else if pop.is_empty() {
                            d.violate("C07", "best-invented", format!("({tname}) a best individual appeared from an empty population"));
                        }
                        if !pop.is_empty() && !pop.contains(a) && b.as_ref().map(|b| b != a).unwrap_or(true) {
                            d.violate("C07", "best-not-from-population", format!("({tname}) the new best individual is not a member of the population"));
                        }
                    }
                }
            }
            Pre::ArchiveUpdate { archive, pop } => {
                if !self.archive_updated && !archive.is_empty() {
                    d.violate("C07", "archive-not-reset-by-init", format!("({tname}) the first archive update of the run found {} individuals in the archive that this run never showed it", archive.len()));
                }
                self.archive_updated = true;
                let k = self.case.params.get("num_elitists").copied().unwrap_or(0.0) as usize;
                let after = state.try_borrow::<ElitistArchive<P>>().map(|a| pop_kvs::<P>(a.elitists())).unwrap_or_default();
                let mut shown: Vec<KV> = archive.clone();
                shown.extend(pop.iter().cloned());
                let mut exp = sorted_vals(&shown);
                exp.truncate(k);
                let got = sorted_vals(&after);
                if exp.iter().map(|x| zbits(*x)).collect::<Vec<_>>() != got.iter().map(|x| zbits(*x)).collect::<Vec<_>>() {
                    d.violate("C07", "archive-not-k-best", format!("({tname}) archive of capacity {k} holds {got:?}; the {k} best shown so far are {exp:?}"));
                }
                if after.iter().any(|a| !shown.contains(a)) {
                    d.violate("C07", "archive-invented-member", format!("({tname}) the archive holds an individual it was never shown"));
                }
                if archive.len() + pop.len() > k {
                    d.probe("archive update that had to discard");
                }
            }
            Pre::ArchiveInto { archive, pop } => {
                let after: Vec<KV> = state.try_borrow::<Populations<P>>().ok().and_then(|p| p.get_current().map(pop_kvs::<P>)).unwrap_or_default();
                let count = |v: &[KV], x: &KV| v.iter().filter(|y| *y == x).count();
                let mut ok = true;
                for e in &archive {
                    let before = count(&pop, e);
                    if count(&after, e) != before.max(1) {
                        ok = false;
                        d.violate("C07", "archive-reinsertion-duplicates", format!("({tname}) an elitist occurred {before} times before re-insertion and {} times after", count(&after, e)));
                    }
                    if before > 0 {
                        d.probe("elitist already present at re-insertion");
                    }
                }
                let others_before: Vec<&KV> = pop.iter().filter(|x| !archive.contains(x)).collect();
                let others_after: Vec<&KV> = after.iter().filter(|x| !archive.contains(x)).collect();
                if ok && others_before != others_after {
                    d.violate("C07", "archive-reinsertion-changed-others", format!("({tname}) re-insertion changed individuals that are not elitists"));
                }
            }
            Pre::Velocity { xs, vs, w, xps, xg } => {
                let c1 = self.case.params.get("c_one").copied().unwrap_or(0.0);
                let c2 = self.case.params.get("c_two").copied().unwrap_or(0.0);
                let vmax = self.case.params.get("v_max").copied().unwrap_or(f64::INFINITY);
                let (Ok(pops), Ok(vel)) = (state.try_borrow::<Populations<P>>(), state.try_borrow::<ParticleVelocities<Global>>()) else { return };
                let Some(cur) = pops.get_current() else { return };
                if cur.len() != xs.len() || vel.len() != vs.len() {
                    d.violate("C18", "pso-collection-size-changed", format!("swarm update changed sizes: particles {} -> {}, velocities {} -> {}", xs.len(), cur.len(), vs.len(), vel.len()));
                    return;
                }
                for (p, ind) in cur.iter().enumerate() {
                    let Some(x_after) = P::as_real(ind.solution()) else { return };
                    for i in 0..x_after.len().min(vs[p].len()) {
                        let v_new = vel[p][i];
                        if !(v_new.abs() <= vmax) {
                            d.violate("C18", "pso-velocity-not-clamped", format!("particle {p} dim {i}: velocity {v_new} outside [-{vmax}, {vmax}]"));
                        }
                        let moved = xs[p][i] + v_new;
                        if !rel_close(x_after[i], moved, 1e-12) {
                            d.violate("C18", "pso-position-not-moved-by-velocity", format!("particle {p} dim {i}: position {} -> {}, new velocity {v_new} (expected position {moved})", xs[p][i], x_after[i]));
                        }
                        let base = w * vs[p][i];
                        let t1 = c1 * (xps[p][i] - xs[p][i]);
                        let t2 = c2 * (xg[i] - xs[p][i]);
                        let lo = base + t1.min(0.0) + t2.min(0.0);
                        let hi = base + t1.max(0.0) + t2.max(0.0);
                        let slack = 1e-9 * (1.0 + lo.abs().max(hi.abs()));
                        let (lo, hi) = ((lo - slack).clamp(-vmax, vmax), (hi + slack).clamp(-vmax, vmax));
                        if c1 == 0.0 && c2 == 0.0 {
                            let exact = base.clamp(-vmax, vmax);
                            if !rel_close(v_new, exact, 1e-12) && base.is_finite() {
                                d.violate("C18", "pso-stored-inertia-weight-not-used", format!("particle {p} dim {i}: with c1 = c2 = 0 the new velocity must be clamp(w * v) = {exact} for the stored weight {w} and old velocity {}, got {v_new}", vs[p][i]));
                            }
                            d.probe("velocity update decided by the stored weight alone");
                        } else if !(v_new >= lo && v_new <= hi) && base.is_finite() && t1.is_finite() && t2.is_finite() {
                            d.violate("C18", "pso-velocity-outside-update-rule", format!("particle {p} dim {i}: new velocity {v_new} not in [{lo}, {hi}] (w = {w}, old v = {}, c1 term {t1}, c2 term {t2})", vs[p][i]));
                        }
                        if v_new.abs() == vmax {
                            d.probe("velocity clamped at v_max");
                        }
                    }
                }
            }
            Pre::PersonalBest { before, cand } => {
                let after = state.try_borrow::<BestParticles<P, Global>>().map(|a| pop_kvs::<P>(&a)).unwrap_or_default();
                if after.len() != before.len() {
                    d.violate("C18", "pso-collection-size-changed", format!("personal bests {} -> {}", before.len(), after.len()));
                    return;
                }
                if self.pso_hist_min.len() == cand.len() {
                    for (i, c) in cand.iter().enumerate() {
                        let v = val(c);
                        if v < self.pso_hist_min[i] {
                            self.pso_hist_min[i] = v;
                        }
                    }
                }
                for i in 0..after.len().min(cand.len()) {
                    let (b, a, c) = (val(&before[i]), val(&after[i]), val(&cand[i]));
                    if !(a <= b) {
                        d.violate("C18", "pso-personal-best-got-worse", format!("particle {i}: personal best {b} -> {a}"));
                    }
                    let exp = if c < b { &cand[i] } else { &before[i] };
                    if &after[i] != exp {
                        d.violate("C18", "pso-personal-best-wrong", format!("particle {i}: personal best was {b}, evaluated at {c}, now {a}"));
                    }
                    if self.pso_hist_min.len() == after.len() && zbits(a) != zbits(self.pso_hist_min[i]) {
                        d.violate("C18", "pso-personal-best-not-history-best", format!("particle {i}: personal best {a}, best value it was ever evaluated at {}", self.pso_hist_min[i]));
                    }
                    if c == b {
                        d.probe("personal best tie");
                    }
                }
            }
            Pre::Pheromone { pm, pop } => {
                let n = problem.dimension_hint();
                let Ok(after_pm) = state.try_borrow::<PheromoneMatrix>() else { return };
                let after = pm_dump(&after_pm, n);
                let rho = self.case.params.get("evaporation").copied().unwrap_or(0.0);
                let mmas = kind == "MinMaxPheromoneUpdate";
                let mut exp: Vec<f64> = pm.iter().map(|x| x * (1.0 - rho)).collect();
                let sampled = &pop[1.min(pop.len())..];
                let mut deposit = |tour: &Vec<usize>, delta: f64, exp: &mut Vec<f64>| {
                    for w in tour.windows(2) {
                        let (a, b) = (w[0] % n, w[1] % n);
                        exp[a * n + b] += delta;
                        exp[b * n + a] += delta;
                    }
                };
                if mmas {
                    let mut best: Option<&(Vec<usize>, Option<f64>)> = None;
                    for t in sampled {
                        if best.map(|b| t.1.unwrap_or(f64::NAN) < b.1.unwrap_or(f64::NAN)).unwrap_or(true) {
                            best = Some(t);
                        }
                    }
                    if let Some((tour, Some(len))) = best {
                        deposit(tour, 1.0 / len, &mut exp);
                    }
                    let (lo, hi) = (self.case.params.get("min_pheromones").copied().unwrap_or(0.0), self.case.params.get("max_pheromones").copied().unwrap_or(f64::INFINITY));
                    for (i, x) in after.iter().enumerate() {
                        if !(*x >= lo && *x <= hi) && i / n != i % n {
                            d.violate("C19", "mmas-trail-out-of-bounds", format!("max-min update: trail ({}, {}) = {x} outside [{lo}, {hi}]", i / n, i % n));
                            break;
                        }
                    }
                    for x in exp.iter_mut() {
                        *x = x.clamp(lo, hi);
                    }
                } else {
                    let coef = self.case.params.get("decay_coefficient").copied().unwrap_or(1.0);
                    for (tour, len) in sampled {
                        if let Some(len) = len {
                            deposit(tour, coef / len, &mut exp);
                        }
                    }
                }
                for a in 0..n {
                    for b in 0..n {
                        let x = after[a * n + b];
                        if a == b {
                            continue;
                        }
                        if !x.is_finite() || x < 0.0 {
                            d.violate("C19", "pheromone-not-finite-nonnegative", format!("{kind}: trail ({a}, {b}) = {x}"));
                            return;
                        }
                        if x.to_bits() != after[b * n + a].to_bits() && !rel_close(x, after[b * n + a], 1e-12) {
                            d.violate("C19", "pheromone-not-symmetric", format!("{kind}: trail ({a}, {b}) = {x} but ({b}, {a}) = {}", after[b * n + a]));
                            return;
                        }
                        if !rel_close_nonneg(x, exp[a * n + b], 1e-9) {
                            // out-of-bounds trails of the max-min variant are reported above under their own class
                            let oob = mmas && (pm[a * n + b] * (1.0 - rho)).to_bits() == x.to_bits();
                            if !oob {
                                d.violate("C19", "pheromone-update-rule", format!("{kind}: trail ({a}, {b}) was {}, is {x}, evaporation + deposits give {}", pm[a * n + b], exp[a * n + b]));
                                return;
                            }
                        }
                    }
                }
                d.probe("pheromone update checked");
            }
            Pre::Cro { .. } => self.cro_post(kind, pre, state, d),
        }
    }

    /// checks after steps that need no pre-state
    fn post_stateless(&mut self, kind: &str, problem: &P, state: &State<P>, d: &mut ObsData) {
        match kind {
            "AcoGeneration" => {
                let n = problem.dimension_hint();
                let ants = self.case.params.get("num_ants").copied().unwrap_or(0.0) as usize;
                let Ok(pops) = state.try_borrow::<Populations<P>>() else { return };
                let Some(cur) = pops.get_current() else { return };
                if cur.len() != ants + 1 {
                    d.violate("C19", "aco-tour-count", format!("generation produced {} tours for {ants} ants (expected {})", cur.len(), ants + 1));
                }
                for (k, ind) in cur.iter().enumerate() {
                    let Some(t) = P::as_perm(ind.solution()) else { return };
                    let mut s = t.to_vec();
                    s.sort();
                    if s != (0..n).collect::<Vec<_>>() || t.first() != Some(&0) {
                        d.violate("C19", "aco-invalid-tour", format!("tour #{k} = {t:?} is not a permutation of 0..{n} starting at 0"));
                        break;
                    }
                    if ind.is_evaluated() {
                        d.violate("C19", "aco-tour-evaluated", format!("tour #{k} is marked evaluated right after generation"));
                        break;
                    }
                }
                d.probe("generation checked");
            }
            "Linear" if self.case.kind == Kind::Pso => {
                let (s, e) = (self.case.p("start_weight"), self.case.p("end_weight"));
                if let (Ok(w), Ok(pr)) = (state.try_get_value::<InertiaWeight<ParticleVelocitiesUpdate<Global>>>(), state.try_get_value::<Progress<ValueOf<Iterations>>>()) {
                    // the progress is that of the loop's current pass: iterations / n, refreshed by
                    // the loop condition at the top of this pass
                    let n_iter = match self.case.term {
                        Term::Iterations(n) | Term::Either { iters: n, .. } => Some(n),
                        _ => None,
                    };
                    if let (Some(n), Ok(it)) = (n_iter, state.try_get_value::<Iterations>()) {
                        let cur = it as f64 / n as f64;
                        if pr.to_bits() != cur.to_bits() && !(pr.is_nan() && cur.is_nan()) {
                            d.violate("C18", "pso-progress-stale", format!("in pass {it} of {n} the iteration progress reads {pr} instead of {cur}"));
                        }
                    }
                    let exp = (e - s) * pr + s;
                    if !rel_close(w, exp, 1e-12) {
                        d.violate("C18", "pso-inertia-weight-interpolation", format!("inertia weight is {w}; linear interpolation {s} -> {e} at progress {pr} gives {exp}"));
                    }
                    d.probe("inertia weight update checked");
                }
            }
            "PersonalBestParticlesInit" => {
                if let Ok(a) = state.try_borrow::<BestParticles<P, Global>>() {
                    self.pso_hist_min = a.iter().map(|i| i.get_objective().map(|o| o.value()).unwrap_or(f64::NAN)).collect();
                }
            }
            "GlobalBestParticleUpdate" => {
                self.swarm_ready = true;
            }
            _ => {}
        }
        if kind == "SwarmResize" {
            if let (Ok(pops), Ok(v)) = (state.try_borrow::<Populations<P>>(), state.try_borrow::<ParticleVelocities<Global>>()) {
                if pops.get_current().map(|c| c.len()) != Some(v.len()) {
                    self.resized = true;
                    d.injected = true;
                    bump(&mut d.counters, "fault:swarm-resized-behind-the-swarm-state", 1);
                }
            }
        }
        if self.resized && kind == "ParticleVelocitiesUpdate" {
            // the update completed although the three collections have different lengths
            if let (Ok(pops), Ok(v), Ok(pb)) = (state.try_borrow::<Populations<P>>(), state.try_borrow::<ParticleVelocities<Global>>(), state.try_borrow::<BestParticles<P, Global>>()) {
                let n = pops.get_current().map(|c| c.len()).unwrap_or(0);
                d.violate("C18", "pso-update-on-unaligned-collections", format!("a velocity update completed with {n} particles, {} velocities and {} personal bests", v.len(), pb.len()));
            }
        }
        if self.swarm_ready && !self.resized && self.case.kind == Kind::Pso && !is_container(kind) {
            if let (Ok(pops), Ok(v), Ok(pb)) = (state.try_borrow::<Populations<P>>(), state.try_borrow::<ParticleVelocities<Global>>(), state.try_borrow::<BestParticles<P, Global>>()) {
                if let Some(cur) = pops.get_current() {
                    if !(cur.len() == v.len() && v.len() == pb.len()) {
                        d.violate("C18", "pso-collection-sizes-differ", format!("after {kind}: {} particles, {} velocities, {} personal bests", cur.len(), v.len(), pb.len()));
                    }
                }
            }
        }
    }

    fn global_best_relation(&self, state: &State<P>, at: &str, d: &mut ObsData) {
        if let (Ok(g), Ok(ps)) = (state.try_borrow::<BestParticle<P, Global>>(), state.try_borrow::<BestParticles<P, Global>>()) {
            let pmin = ps.iter().filter_map(|i| i.get_objective().map(|o| o.value())).min_by(|a, b| a.total_cmp(b));
            let gv = g.as_ref().and_then(|i| i.get_objective().map(|o| o.value()));
            if let Some(pmin) = pmin {
                if gv.map(zbits) != Some(zbits(pmin)) {
                    d.violate("C18", "pso-global-best-not-best-personal-best", format!("after {at}: global best is {gv:?}, the best personal best is {pmin}"));
                }
            }
        }
    }

    fn population_size_ok(&self, size: usize) -> Option<String> {
        let c = &self.case;
        let exp: Option<(usize, usize)> = match c.kind {
            Kind::BinaryGa | Kind::RealGa | Kind::De | Kind::Es => Some((c.pu("population_size") as usize, c.pu("population_size") as usize)),
            Kind::Pso | Kind::Bh => Some((c.pu("num_particles") as usize, c.pu("num_particles") as usize)),
            Kind::Fa => Some((c.pu("pop_size") as usize, c.pu("pop_size") as usize)),
            Kind::Iwo => Some((0, c.pu("max_population_size") as usize)),
            Kind::RealSa | Kind::PermSa | Kind::RealLs | Kind::PermLs | Kind::RealIls | Kind::PermIls | Kind::RealRs | Kind::PermRs | Kind::RealRw | Kind::PermRw => Some((1, 1)),
            Kind::AntSystem | Kind::Mmas => Some((c.pu("num_ants") as usize + 1, c.pu("num_ants") as usize + 1)),
            Kind::Cro => Some((1, usize::MAX)),
            Kind::GaArchive | Kind::EsArchive | Kind::DeVariants | Kind::GaVariants | Kind::EvalMix | Kind::BigInit | Kind::FailMutation | Kind::Measures | Kind::BoundaryMix => None,
        };
        match exp {
            Some((lo, hi)) if size < lo || size > hi => Some(if lo == hi { format!("{lo}") } else if hi == usize::MAX { format!(">= {lo}") } else { format!("{lo}..={hi}") }),
            _ => None,
        }
    }
}

impl<P: HProblem> Observer<P> for Obs<P> {
    fn block_before(&mut self, child: &dyn Component<P>, problem: &P, state: &mut State<P>) -> ExecResult<()> {
        let kind = self.kind_of(child);
        let data = self.data.clone();
        let mut d = data.lock().unwrap();
        let idx = d.step_index;
        d.step_index += 1;
        if let TFault::StepFail(j) = self.case.fault {
            if j == idx {
                d.injected = true;
                bump(&mut d.counters, "fault:step-fail", 1);
                return Err(eyre::eyre!("injected step failure at step {idx} ({kind})"));
            }
        }
        d.fp.str(&kind);
        let pre = self.snapshot_pre(&kind, problem, state);
        self.open.push(Open { kind, pre, evals: state.try_get_value::<Evaluations>().ok(), calls: problem.instr().n_calls() });
        Ok(())
    }

    fn block_after(&mut self, _child: &dyn Component<P>, problem: &P, state: &mut State<P>) {
        let Some(open) = self.open.pop() else { return };
        let data = self.data.clone();
        let mut d = data.lock().unwrap();
        d.steps += 1;
        let kind = open.kind;
        if !is_container(&kind) {
            bump(&mut d.counters, &format!("steps of {kind}"), 1);
            // the counter advances by exactly the objective calls made, whatever the component
            let calls = problem.instr().n_calls();
            if let (Some(e0), Ok(e1), false) = (open.evals, state.try_get_value::<Evaluations>(), SURROGATE_SCOPE.with(|f| f.get())) {
                if e1.wrapping_sub(e0) as usize != calls - open.calls {
                    d.violate("C06", format!("step-counter-delta step={kind}"), format!("({}) step {kind}: evaluation counter {e0} -> {e1} while the objective was called {} times", self.case.kind.name(), calls - open.calls));
                }
            }
        }
        self.post(&kind, open.pre, problem, state, &mut d);
        self.post_stateless(&kind, problem, state, &mut d);
        if kind == "Block" && self.case.kind == Kind::Pso && self.swarm_ready {
            // the swarm-state update as a whole (personal bests, then global best) is one block
            self.global_best_relation(state, "the swarm-update block", &mut d);
        }
        self.audit_objectives(problem, state, &kind, &mut d);
    }

    fn loop_event(&mut self, _lp: &Loop<P>, event: LoopEvent, problem: &P, state: &mut State<P>) {
        let data = self.data.clone();
        let mut d = data.lock().unwrap();
        let height = state.try_borrow::<Populations<P>>().map(|p| p.len()).unwrap_or(0);
        // a nested template's own outermost loop is the second one entered (the first is the
        // harness' restart loop, each pass of which leaves one more population behind)
        let main = if self.case.nest > 0 { 2 } else { 1 };
        match event {
            LoopEvent::Enter => {
                self.loop_depth += 1;
            }
            LoopEvent::PassBegin => {
                self.pass_heights.push(height);
                if self.loop_depth < main {
                    // a restart: the nested heuristic begins again in a fresh scope
                    self.swarm_ready = false;
                    self.resized = false;
                }
                if self.loop_depth == main {
                    self.calls_at_pass_begin = problem.instr().n_calls();
                }
            }
            LoopEvent::PassEnd => {
                if let Some(h0) = self.pass_heights.pop() {
                    if self.loop_depth < main {
                        if h0 + 1 != height {
                            d.violate("C16", format!("stack-height-of-nested-run template={}", self.case.kind.name()), format!("{}: run as a nested heuristic, one restart took the stack from {h0} to {height} populations", self.case.kind.name()));
                        }
                    } else if h0 != height {
                        d.violate(
                            "C16",
                            format!("stack-height-changed-in-pass template={} loop-depth={}", self.case.kind.name(), self.loop_depth + 1 - main),
                            format!("{}: a pass of the loop at nesting depth {} began with {h0} populations on the stack and ended with {height}", self.case.kind.name(), self.loop_depth + 1 - main),
                        );
                    }
                }
                if self.loop_depth == main && self.case.kind == Kind::Pso {
                    self.global_best_relation(state, "a loop pass", &mut d);
                }
                if self.loop_depth == main {
                    d.passes_main += 1;
                    d.calls_in_last_pass = (problem.instr().n_calls() - self.calls_at_pass_begin) as u64;
                    if let Ok(pops) = state.try_borrow::<Populations<P>>() {
                        if let Some(cur) = pops.get_current() {
                            if let Some(exp) = self.population_size_ok(cur.len()) {
                                d.violate(
                                    "C16",
                                    format!("population-size template={}", self.case.kind.name()),
                                    format!("{}: population has {} individuals after a pass; its parameters prescribe {exp}", self.case.kind.name(), cur.len()),
                                );
                            }
                            if cur.len() <= 2 && self.case.kind == Kind::Cro {
                                d.probe(&format!("cro population of size {}", cur.len()));
                            }
                        }
                    }
                } else if self.loop_depth > main {
                    d.probe("inner loop pass");
                }
            }
            LoopEvent::Exit => {
                if self.loop_depth > if self.case.nest > 0 { 2 } else { 1 } {
                    d.probe("inner loop finished");
                }
                self.loop_depth = self.loop_depth.saturating_sub(1);
            }
        }
    }
}
