//! Multi-borrow (`try_get_multiple_mut`) execution for the generated tuple catalogue.

use super::ops::St;
use super::types::*;
use mahf::state::registry::MultiStateTuple;
use mahf::StateError;

#[derive(Clone, Debug, PartialEq)]
pub enum MultiOutcome {
    Repeat,
    Missing,
    /// addresses of the referenced objects and the values they held before `vals` were written
    Refs { addrs: Vec<usize>, old: Vec<u32> },
    Other(String),
}

pub trait Refs {
    fn collect(self) -> Vec<(usize, &'static mut dyn ProbeDyn)>;
}

pub trait ProbeDyn {
    fn get(&self) -> u32;
    fn set(&mut self, v: u32);
}

impl<T: Probe> ProbeDyn for T {
    fn get(&self) -> u32 {
        self.val()
    }
    fn set(&mut self, v: u32) {
        self.put(v);
    }
}

macro_rules! impl_refs {
    ($($T:ident $v:ident),+) => {
        impl<'a, $($T: Probe),+> Refs for ($(&'a mut $T),+) {
            fn collect(self) -> Vec<(usize, &'static mut dyn ProbeDyn)> {
                let ($($v),+) = self;
                vec![$({
                    let addr = $v as *mut $T as usize;
                    // SAFETY: only used within `run_multi`, strictly inside the borrow of the
                    // registry the references came from; the 'static is never observable.
                    let r: &'static mut dyn ProbeDyn = unsafe { &mut *($v as *mut $T) };
                    (addr, r)
                }),+]
            }
        }
    };
}

impl_refs!(A a, B b);
impl_refs!(A a, B b, C c);
impl_refs!(A a, B b, C c, D d);
impl_refs!(A a, B b, C c, D d, E e);
impl_refs!(A a, B b, C c, D d, E e, F f);
impl_refs!(A a, B b, C c, D d, E e, F f, G g);
impl_refs!(A a, B b, C c, D d, E e, F f, G g, H h);

pub fn run_multi<'b, T>(st: &'b mut St, vals: &[u32]) -> MultiOutcome
where
    T: MultiStateTuple<'b, 'static>,
    T::References: Refs,
{
    match st.try_get_multiple_mut::<T>() {
        Err(StateError::MultipleBorrowConflict(_)) => MultiOutcome::Repeat,
        Err(StateError::NotFound(_)) => MultiOutcome::Missing,
        Err(e) => MultiOutcome::Other(e.to_string()),
        Ok(refs) => {
            let mut v = refs.collect();
            let addrs = v.iter().map(|(a, _)| *a).collect();
            let old = v.iter().map(|(_, r)| r.get()).collect();
            // write through every reference (aliasing references would make the later reads
            // disagree with the model)
            for (i, (_, r)) in v.iter_mut().enumerate() {
                r.set(vals[i]);
            }
            MultiOutcome::Refs { addrs, old }
        }
    }
}

/// The panicking accessor `get_multiple_mut`: `None` if it panicked.
pub fn run_multi_panicking<'b, T>(st: &'b mut St, vals: &[u32]) -> Option<MultiOutcome>
where
    T: MultiStateTuple<'b, 'static>,
    T::References: Refs,
{
    // `guarded` takes an FnOnce, so the reborrow of `st` for 'b can move into the closure
    let r = crate::framework::guarded(move || {
        let refs = st.get_multiple_mut::<T>();
        let mut v = refs.collect();
        let addrs: Vec<usize> = v.iter().map(|(a, _)| *a).collect();
        let old: Vec<u32> = v.iter().map(|(_, r)| r.get()).collect();
        for (i, (_, r)) in v.iter_mut().enumerate() {
            r.set(vals[i]);
        }
        MultiOutcome::Refs { addrs, old }
    });
    r.ok()
}
