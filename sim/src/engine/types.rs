//! Engine-world problem and probe state types.

use better_any::{Tid, TidAble};
use derive_more::{Deref, DerefMut};
use mahf::{
    problems::KnownOptimumProblem, CustomState, Problem, SingleObjective,
};
use serde::Serialize;

/// The engine-world problem: nothing is ever optimised, it only types the `State`.
#[derive(Clone, Debug, Default)]
pub struct EP;

impl Problem for EP {
    type Encoding = Vec<f64>;
    type Objective = SingleObjective;
    fn name(&self) -> &str {
        "ep"
    }
}

thread_local! {
    /// The optimum the engine-world problem reports as known (EP is a unit struct that only
    /// types the `State`; the case at hand sets this before its run and resets it afterwards).
    pub static KNOWN_OPTIMUM: std::cell::Cell<f64> = const { std::cell::Cell::new(0.0) };
}

impl KnownOptimumProblem for EP {
    fn known_optimum(&self) -> SingleObjective {
        KNOWN_OPTIMUM.with(|o| o.get()).try_into().unwrap()
    }
}

/// Uniform access to the probe types (a type alias cannot be used as a tuple constructor).
pub trait Probe: for<'a> CustomState<'a> + Default + Clone + 'static {
    fn mk(v: u32) -> Self;
    fn val(&self) -> u32;
    fn put(&mut self, v: u32) -> u32;
}

macro_rules! probe_type {
    ($name:ident) => {
        #[derive(Clone, Default, Debug, Deref, DerefMut, Serialize, Tid, PartialEq)]
        pub struct $name(pub u32);
        impl CustomState<'_> for $name {}
        impl Probe for $name {
            fn mk(v: u32) -> Self {
                $name(v)
            }
            fn val(&self) -> u32 {
                self.0
            }
            fn put(&mut self, v: u32) -> u32 {
                std::mem::replace(&mut self.0, v)
            }
        }
    };
}

probe_type!(T0);
probe_type!(T1);
probe_type!(T2);
probe_type!(T3);
probe_type!(T4);
probe_type!(T5);
probe_type!(T6);
probe_type!(T7);

/// Field-less marker states (zero-sized: every box of one has the same dangling address).
macro_rules! marker_type {
    ($name:ident) => {
        #[derive(Clone, Default, Debug, Serialize, Tid, PartialEq)]
        pub struct $name;
        impl CustomState<'_> for $name {}
    };
}
marker_type!(Z0);
marker_type!(Z1);
marker_type!(Z2);

/// A float-valued state (conditions over float lenses: NaN and infinite values are values, too).
#[derive(Clone, Default, Debug, Deref, DerefMut, Serialize, Tid, PartialEq)]
pub struct F0(pub f64);
impl CustomState<'_> for F0 {}
/// Model tag of `F0` (value: the bits of the float).
pub const TAG_F0: u8 = 15;

pub trait ProbeIdx {
    const IDX: u8;
}
macro_rules! probe_idx {
    ($($t:ident = $i:expr),*) => { $(impl ProbeIdx for $t { const IDX: u8 = $i; })* };
}
probe_idx!(T0 = 0, T1 = 1, T2 = 2, T3 = 3, T4 = 4, T5 = 5, T6 = 6, T7 = 7);

/// Number of probe types used by the generators (T6, T7 only occur in the multi-borrow catalogue).
pub const NT: u8 = 6;
/// Number of probe types in total.
pub const NPROBE: u8 = 8;
/// Model tag of `common::Iterations`.
pub const TAG_IT: u8 = 12;

/// Dispatch a type index to a probe type.
#[macro_export]
macro_rules! with_ty {
    ($t:expr, $T:ident => $body:expr) => {
        match $t {
            0 => {
                type $T = $crate::engine::types::T0;
                $body
            }
            1 => {
                type $T = $crate::engine::types::T1;
                $body
            }
            2 => {
                type $T = $crate::engine::types::T2;
                $body
            }
            3 => {
                type $T = $crate::engine::types::T3;
                $body
            }
            4 => {
                type $T = $crate::engine::types::T4;
                $body
            }
            5 => {
                type $T = $crate::engine::types::T5;
                $body
            }
            6 => {
                type $T = $crate::engine::types::T6;
                $body
            }
            7 => {
                type $T = $crate::engine::types::T7;
                $body
            }
            other => panic!("harness: bad probe type index {other}"),
        }
    };
}
