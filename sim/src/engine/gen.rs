//! Seeded generation of programs.

use super::ops::*;
use super::program::*;
use super::types::*;
use crate::rng::Gen;

pub struct GenCfg {
    pub max_nodes: usize,
    pub max_depth: usize,
    /// leaves carry registry op scripts of up to this length
    pub max_ops: usize,
    /// allow nested closures (with_inner_state / holding) in op scripts
    pub closure_depth: u32,
    pub panicking_ops: bool,
    pub ntypes: u8,
    /// probability that a condition is a real mahf condition instead of a scripted one
    pub real_conds: f64,
    pub loggers: bool,
    pub requires: bool,
    /// leaves write values from a small range (value histories with repeats and small moves)
    /// and occasionally set / clear the best-individual memory
    pub small_values: bool,
}

pub struct ProgGen<'a> {
    pub g: &'a mut Gen,
    pub cfg: &'a GenCfg,
    next_id: u32,
    next_val: u32,
    budget: usize,
}

impl<'a> ProgGen<'a> {
    pub fn new(g: &'a mut Gen, cfg: &'a GenCfg) -> Self {
        ProgGen { g, cfg, next_id: 0, next_val: 0, budget: 0 }
    }

    fn id(&mut self) -> u32 {
        self.next_id += 1;
        self.next_id
    }

    fn ops(&mut self, max: usize) -> Vec<Op> {
        if self.cfg.small_values {
            let n = self.g.below(max + 1);
            return (0..n)
                .map(|_| {
                    let t = self.g.below(self.cfg.ntypes as usize) as u8;
                    let v = self.g.below(9) as u32;
                    match self.g.below(10) {
                        0..=3 => Op::Insert(t, v),
                        4..=6 => Op::Set(t, v),
                        7 => Op::Remove(t),
                        8 => Op::SetBest(Some(*self.g.pick(&[0.0, 0.25, 0.5, 1.0, 2.0, 3.0, 7.5]))),
                        _ if self.g.chance(0.4) => Op::SetBest(if self.g.chance(0.5) { None } else { Some(f64::INFINITY) }),
                        _ if self.g.chance(0.4) => Op::SetFloat(self.g.pick(&[0.0f64, 0.25, 0.5, 1.0, 2.5, -1.0, f64::NAN, f64::INFINITY]).to_bits()),
                        _ if self.g.chance(0.3) => Op::SetPopulation(if self.g.chance(0.2) { None } else { Some(*self.g.pick(&[0.0, 0.25, 1.0, 2.0, 3.0])) }),
                        _ => Op::SetBestHere(if self.g.chance(0.6) { None } else { Some(*self.g.pick(&[0.0, 1.0, 3.0])) }),
                    }
                })
                .collect();
        }
        let n = self.g.below(max + 1);
        let mut og = OpGen { g: self.g, next_val: self.next_val, ntypes: self.cfg.ntypes };
        let v = (0..n).map(|_| og.op(false, self.cfg.closure_depth, self.cfg.panicking_ops)).collect();
        self.next_val = og.next_val;
        v
    }

    fn scripted(&mut self, max_len: usize) -> Cond {
        let n = self.g.below(max_len + 1);
        let outcomes = (0..n).map(|_| self.g.chance(0.65)).collect();
        Cond::Scripted { id: self.id(), outcomes }
    }

    fn tracked_type(&mut self) -> u8 {
        if self.g.chance(0.3) { TAG_IT } else { self.g.below(self.cfg.ntypes as usize) as u8 }
    }

    pub fn real_cond(&mut self, depth: u32) -> Cond {
        let k = self.g.below(if depth > 0 { 9 } else { 6 });
        let id = self.id();
        match k {
            0 if self.g.chance(0.25) => Cond::LessThanF { id, n: *self.g.pick(&[0.5, 1.0, 2.0]) },
            0 => Cond::LessThan { id, t: self.tracked_type(), n: 1 + self.g.below(6) as u32 },
            1 => Cond::EveryN { id, t: self.tracked_type(), n: 1 + self.g.below(4) as u32 },
            2 => Cond::ChangeDelta { id, t: self.tracked_type(), threshold: self.g.below(5) as u32 },
            3 => Cond::ChangeEq { id, t: self.tracked_type() },
            4 => Cond::Optimum { id, eps: *self.g.pick(&[0.0, 0.5, 1.0, 3.0]) },
            5 => {
                let n = self.g.below(4);
                Cond::Scripted { id, outcomes: (0..n).map(|_| self.g.chance(0.6)).collect() }
            }
            6 => {
                let n = 1 + self.g.below(3);
                Cond::And { id, ops: (0..n).map(|_| self.real_cond(depth - 1)).collect() }
            }
            7 => {
                let n = 1 + self.g.below(3);
                Cond::Or { id, ops: (0..n).map(|_| self.real_cond(depth - 1)).collect() }
            }
            _ => Cond::Not { id, inner: Box::new(self.real_cond(depth - 1)) },
        }
    }

    fn cond(&mut self, for_loop: bool) -> Cond {
        if self.g.chance(self.cfg.real_conds) {
            let c = self.real_cond(2);
            if for_loop {
                // keep every loop bounded: conjoin a finite scripted guard
                let guard = self.scripted(4);
                return Cond::And { id: self.id(), ops: vec![guard, c] };
            }
            c
        } else {
            self.scripted(if for_loop { 4 } else { 3 })
        }
    }

    fn leaf(&mut self) -> Node {
        let init_ops = if self.g.chance(0.35) { self.ops(2) } else { Vec::new() };
        let req = if self.cfg.requires && self.g.chance(0.2) {
            Some(self.g.below(self.cfg.ntypes as usize) as u8)
        } else {
            None
        };
        let ops = self.ops(self.cfg.max_ops);
        Node::Leaf { id: self.id(), init_ops, req, ops }
    }

    fn nodes(&mut self, depth: usize, max_children: usize) -> Vec<Node> {
        let n = 1 + self.g.below(max_children);
        let mut out = Vec::new();
        for _ in 0..n {
            if self.budget == 0 {
                break;
            }
            self.budget -= 1;
            let k = self.g.below(100);
            let node = if depth == 0 || k < 45 {
                if self.cfg.loggers && self.g.chance(0.3) {
                    Node::Logger { id: self.id() }
                } else {
                    self.leaf()
                }
            } else if k < 62 {
                let cond = self.cond(true);
                Node::While { id: self.id(), cond, body: self.nodes(depth - 1, 3) }
            } else if k < 72 {
                let cond = self.cond(false);
                Node::If { id: self.id(), cond, then: self.nodes(depth - 1, 2), els: None }
            } else if k < 82 {
                let cond = self.cond(false);
                let then = self.nodes(depth - 1, 2);
                let els = self.nodes(depth - 1, 2);
                Node::If { id: self.id(), cond, then, els: Some(els) }
            } else {
                let hooks = if self.g.chance(0.4) { Some(self.g.below(8) as u8) } else { None };
                Node::Scope { id: self.id(), body: self.nodes(depth - 1, 3), hooks }
            };
            out.push(node);
        }
        out
    }

    pub fn program(&mut self) -> Program {
        self.budget = 2 + self.g.below(self.cfg.max_nodes.max(3) - 1);
        let mut root = self.nodes(self.cfg.max_depth, 4);
        let log_rules = if self.cfg.loggers {
            // the logger reads the iteration counter with a panicking accessor: guarantee a
            // loop initialised in the outermost scope
            let cond = self.scripted(3);
            let id = self.id();
            let lid = self.id();
            let pos = self.g.below(root.len() + 1);
            root.insert(pos, Node::While { id, cond, body: vec![Node::Logger { id: lid }] });
            if self.g.chance(0.9) {
                let n = self.g.below(5);
                Some(
                    (0..n)
                        .map(|_| {
                            let trigger = if self.g.chance(0.5) {
                                self.real_cond(1)
                            } else {
                                let k = self.g.below(3);
                                let id = self.id();
                                match k {
                                    0 => Cond::Scripted { id, outcomes: vec![true; 12] },
                                    1 => Cond::Scripted { id, outcomes: vec![] },
                                    _ => Cond::Scripted { id, outcomes: (0..8).map(|_| self.g.chance(0.5)).collect() },
                                }
                            };
                            Rule {
                                trigger,
                                t: if self.g.chance(0.15) { TAG_IT } else { self.g.below(self.cfg.ntypes as usize) as u8 },
                                kind: match self.g.below(8) { 0..=3 => ExtractorKind::ValueOf, 4..=6 => ExtractorKind::IdLens, _ => ExtractorKind::AliasT0 },
                            }
                        })
                        .collect::<Vec<Rule>>()
                        .into_iter()
                        .fold(Vec::new(), |mut acc: Vec<Rule>, mut r| {
                            // sometimes several extractors share one trigger (added with `with_many`)
                            if let Some(prev) = acc.last() {
                                if (r.t as usize + acc.len()) % 3 == 0 {
                                    r.trigger = prev.trigger.clone();
                                }
                            }
                            acc.push(r);
                            acc
                        }),
                )
            } else {
                None
            }
        } else {
            None
        };
        let pre_ops = {
            let n = self.g.below(3);
            let mut v: Vec<Op> = (0..n)
                .map(|_| {
                    self.next_val += 1;
                    Op::Insert(self.g.below(self.cfg.ntypes as usize) as u8, self.next_val)
                })
                .collect();
            // a pass counter left in the caller's state (an earlier run, a caller that prepared it):
            // a loop initialised in that scope starts from 0 all the same
            if self.g.chance(0.15) {
                v.push(Op::Insert(TAG_IT, 1 + self.g.below(6) as u32));
            }
            v
        };
        let resume = self.g.chance(0.3);
        Program { root, log_rules, pre_ops, resume, optimum: if self.g.chance(0.3) { *self.g.pick(&[2.0, 3.0, -1.0, 7.0]) } else { 0.0 } }
    }
}
