//! Generated configuration trees: explicit form, real configuration (built through the real
//! `ConfigurationBuilder` from harness probe components / spied conditions), and the reference
//! interpreter that mirrors `components/control_flow.rs`, the shipped conditions and the logger.

use super::ops::*;
use super::types::*;
use crate::with_ty;
use mahf::conditions::common::{DeltaEqChecker, PartialEqChecker};
use mahf::conditions::{ChangeOf, EveryN, LessThanN, OptimumReached};
use mahf::configuration::ConfigurationBuilder;
use mahf::lens::ValueOf;
use mahf::logging::{LogConfig, Logger};
use mahf::state::common::{Iterations, Progress};
use mahf::state::StateReq;
use mahf::{lens::IdLens, Component, Condition, Configuration, ExecResult, State, StateError};
use serde::{Deserialize, Serialize, Serializer};
use std::collections::BTreeMap;
use std::sync::{Arc, Mutex};

#[derive(Clone, Copy, Debug, PartialEq, Eq, PartialOrd, Ord, Serialize, Deserialize)]
pub enum Phase {
    Init,
    Require,
    Exec,
}

#[derive(Clone, Debug, PartialEq, Serialize, Deserialize)]
pub enum Cond {
    Scripted { id: u32, outcomes: Vec<bool> },
    LessThan { id: u32, t: u8, n: u32 },
    /// `LessThanN::new(n, ValueOf::<F0>::new())`: a float lens and a float bound
    LessThanF { id: u32, n: f64 },
    EveryN { id: u32, t: u8, n: u32 },
    ChangeDelta { id: u32, t: u8, threshold: u32 },
    ChangeEq { id: u32, t: u8 },
    Optimum { id: u32, eps: f64 },
    And { id: u32, ops: Vec<Cond> },
    Or { id: u32, ops: Vec<Cond> },
    Not { id: u32, inner: Box<Cond> },
}

impl Cond {
    pub fn id(&self) -> u32 {
        match self {
            Cond::Scripted { id, .. }
            | Cond::LessThan { id, .. }
            | Cond::LessThanF { id, .. }
            | Cond::EveryN { id, .. }
            | Cond::ChangeDelta { id, .. }
            | Cond::ChangeEq { id, .. }
            | Cond::Optimum { id, .. }
            | Cond::And { id, .. }
            | Cond::Or { id, .. }
            | Cond::Not { id, .. } => *id,
        }
    }
    pub fn kind(&self) -> &'static str {
        match self {
            Cond::Scripted { .. } => "scripted",
            Cond::LessThan { .. } => "less-than-n",
            Cond::LessThanF { .. } => "less-than-n (float lens)",
            Cond::EveryN { .. } => "every-n",
            Cond::ChangeDelta { .. } => "change-of-delta",
            Cond::ChangeEq { .. } => "change-of-eq",
            Cond::Optimum { .. } => "optimum-reached",
            Cond::And { .. } => "and",
            Cond::Or { .. } => "or",
            Cond::Not { .. } => "not",
        }
    }
}

#[derive(Clone, Debug, PartialEq, Serialize, Deserialize)]
pub enum Node {
    Leaf {
        id: u32,
        init_ops: Vec<Op>,
        req: Option<u8>,
        ops: Vec<Op>,
    },
    While {
        id: u32,
        cond: Cond,
        body: Vec<Node>,
    },
    If {
        id: u32,
        cond: Cond,
        then: Vec<Node>,
        els: Option<Vec<Node>>,
    },
    Scope {
        id: u32,
        body: Vec<Node>,
        /// `Some(k)`: built with `Scope::new_with` and the harness' k-th state-init / merge pair
        /// (the init puts a value into the child, the merge copies it into the parent)
        #[serde(default)]
        hooks: Option<u8>,
    },
    Logger {
        id: u32,
    },
}

#[derive(Clone, Copy, Debug, PartialEq, Serialize, Deserialize)]
pub enum ExtractorKind {
    ValueOf,
    IdLens,
    /// a harness lens that reads the rule's probe type but names its entry like probe type `T0`
    /// (two rules with the same name and different sources)
    AliasT0,
}

/// Reads probe type `T`, names the entry like `ValueOf<T0>`.
pub struct AliasLens<T>(std::marker::PhantomData<fn() -> T>);
impl<T> Clone for AliasLens<T> {
    fn clone(&self) -> Self {
        AliasLens(std::marker::PhantomData)
    }
}
impl<T> Serialize for AliasLens<T> {
    fn serialize<S: Serializer>(&self, s: S) -> Result<S::Ok, S::Error> {
        s.serialize_unit_struct("AliasLens")
    }
}
impl<T: Probe> mahf::lens::AnyLens for AliasLens<T> {
    type Target = u32;
}
impl<T: Probe> mahf::lens::LensMap for AliasLens<T> {
    type Source = T;
    fn map(&self, source: &T) -> u32 {
        source.val()
    }
}
impl<T> mahf::logging::extractor::EntryName for AliasLens<T> {
    fn entry_name() -> &'static str {
        std::any::type_name::<T0>()
    }
}

/// The entry name a rule logs under.
pub fn rule_name(r: &Rule) -> &'static str {
    if r.kind == ExtractorKind::AliasT0 && r.t != TAG_IT {
        type_name_of(0)
    } else {
        type_name_of(r.t)
    }
}

#[derive(Clone, Debug, PartialEq, Serialize, Deserialize)]
pub struct Rule {
    pub trigger: Cond,
    /// probe type index or `TAG_IT`
    pub t: u8,
    pub kind: ExtractorKind,
}

#[derive(Clone, Debug, PartialEq, Serialize, Deserialize)]
pub struct Program {
    pub root: Vec<Node>,
    /// `Some(rules)`: a `LogConfig` with these rules is placed in the caller's state
    pub log_rules: Option<Vec<Rule>>,
    /// state the caller puts into the root scope before `run`
    pub pre_ops: Vec<Op>,
    /// the caller handles an error of the execute phase and executes the heuristic again on the
    /// same state (`config.heuristic().execute(..)`, no re-initialisation): what a failed
    /// execution left behind (counters, memories, scopes) is what the second one starts from
    #[serde(default)]
    pub resume: bool,
    /// the optimum the problem reports as known (optimum-reached compares with it)
    #[serde(default)]
    pub optimum: f64,
}

/// The execute phase had begun (the caller can resume) and the run ended with an ordinary error.
pub fn resumable(trace: &[Ev], end: &RunEnd) -> bool {
    matches!(end, RunEnd::Injected { .. } | RunEnd::NotFound | RunEnd::RequiredMissing | RunEnd::Other(_))
        && trace.iter().any(|e| matches!(e, Ev::Enter { phase: Phase::Exec, .. } | Ev::Eval { .. }))
}

#[derive(Clone, Copy, Debug, PartialEq, Eq, Serialize, Deserialize)]
pub struct Fault {
    pub id: u32,
    pub phase: Phase,
    pub occ: u32,
}

#[derive(Clone, Debug, PartialEq, Serialize, Deserialize)]
pub enum Ev {
    Enter { id: u32, phase: Phase, occ: u32 },
    Ret { id: u32, idx: u32, ret: Ret },
    Snap { id: u32, levels: Vec<BTreeMap<u8, u64>> },
    Eval { id: u32, value: bool, aux: Option<u64> },
}

#[derive(Clone, Debug, PartialEq, Serialize, Deserialize)]
pub enum RunEnd {
    Ok,
    Injected { id: u32, phase: Phase, occ: u32 },
    NotFound,
    RequiredMissing,
    Panicked,
    /// more than `STEP_LIMIT` phase entries: the case is outside the generators' bounded space
    /// (only shrink candidates can get here) and is not judged
    Budget,
    Other(String),
}

pub const STEP_LIMIT: u32 = 4000;

pub type ExpLog = Vec<BTreeMap<String, Option<u64>>>;

// ---------------------------------------------------------------------------------------------
// shared run context of the real configuration

pub struct Shared {
    pub trace: Mutex<Vec<Ev>>,
    counts: Mutex<BTreeMap<(u32, Phase), u32>>,
    cursors: Mutex<BTreeMap<u32, usize>>,
    total: Mutex<u32>,
    fault: Option<Fault>,
    /// record `Snap` events
    snaps: bool,
}

impl Shared {
    pub fn new(fault: Option<Fault>, snaps: bool) -> Arc<Self> {
        Arc::new(Shared {
            trace: Mutex::new(Vec::new()),
            counts: Mutex::new(BTreeMap::new()),
            cursors: Mutex::new(BTreeMap::new()),
            total: Mutex::new(0),
            fault,
            snaps,
        })
    }
    fn push(&self, ev: Ev) {
        self.trace.lock().unwrap().push(ev);
    }
    fn enter(&self, id: u32, phase: Phase) -> ExecResult<()> {
        let occ = {
            let mut c = self.counts.lock().unwrap();
            let e = c.entry((id, phase)).or_insert(0);
            let o = *e;
            *e += 1;
            o
        };
        self.push(Ev::Enter { id, phase, occ });
        if self.fault == Some(Fault { id, phase, occ }) {
            return Err(eyre::eyre!("injected-fault id={id} phase={phase:?} occ={occ}"));
        }
        let total = {
            let mut t = self.total.lock().unwrap();
            *t += 1;
            *t
        };
        if total > STEP_LIMIT {
            return Err(eyre::eyre!("step-budget exhausted"));
        }
        Ok(())
    }
}

pub fn injected_message(id: u32, phase: Phase, occ: u32) -> String {
    format!("injected-fault id={id} phase={phase:?} occ={occ}")
}

// ---------------------------------------------------------------------------------------------
// harness components

#[derive(Clone)]
pub struct ProbeLeaf {
    id: u32,
    init_ops: Vec<Op>,
    req: Option<u8>,
    ops: Vec<Op>,
    sh: Arc<Shared>,
}

impl Serialize for ProbeLeaf {
    fn serialize<S: Serializer>(&self, s: S) -> Result<S::Ok, S::Error> {
        use serde::ser::SerializeStruct;
        let mut st = s.serialize_struct("ProbeLeaf", 2)?;
        st.serialize_field("id", &self.id)?;
        st.serialize_field("ops", &self.ops.len())?;
        st.end()
    }
}

impl Component<EP> for ProbeLeaf {
    fn init(&self, _problem: &EP, state: &mut State<EP>) -> ExecResult<()> {
        self.sh.enter(self.id, Phase::Init)?;
        // SAFETY of lifetimes: the harness only ever runs these on `State<'static, EP>`
        let st: &mut St = unsafe_static(state);
        for (i, op) in self.init_ops.iter().enumerate() {
            let ret = apply_real(op, st);
            self.sh.push(Ev::Ret { id: self.id, idx: 1000 + i as u32, ret });
        }
        Ok(())
    }

    fn require(&self, _problem: &EP, state_req: &StateReq<EP>) -> ExecResult<()> {
        self.sh.enter(self.id, Phase::Require)?;
        if let Some(t) = self.req {
            with_ty!(t, T => state_req.require::<ProbeLeaf, T>()?);
        }
        Ok(())
    }

    fn execute(&self, _problem: &EP, state: &mut State<EP>) -> ExecResult<()> {
        self.sh.enter(self.id, Phase::Exec)?;
        let st: &mut St = unsafe_static(state);
        for (i, op) in self.ops.iter().enumerate() {
            let ret = apply_real(op, st);
            self.sh.push(Ev::Ret { id: self.id, idx: i as u32, ret });
        }
        if self.sh.snaps {
            self.sh.push(Ev::Snap { id: self.id, levels: snapshot(st) });
        }
        Ok(())
    }
}

/// `Component::execute` is generic over the state's lifetime; all engine-world states are
/// `State<'static, EP>` (the probe types are `'static`), so the two are the same type here.
fn unsafe_static<'s, 'a>(state: &'s mut State<'a, EP>) -> &'s mut St {
    // SAFETY: every `State` the engine world creates is `State<'static, EP>`; the lifetime
    // parameter is phantom for the probe types stored in it.
    unsafe { &mut *(state as *mut State<'a, EP> as *mut St) }
}

#[derive(Clone)]
struct Scripted {
    id: u32,
    outcomes: Vec<bool>,
    sh: Arc<Shared>,
}

impl Serialize for Scripted {
    fn serialize<S: Serializer>(&self, s: S) -> Result<S::Ok, S::Error> {
        use serde::ser::SerializeStruct;
        let mut st = s.serialize_struct("Scripted", 2)?;
        st.serialize_field("id", &self.id)?;
        st.serialize_field("outcomes", &self.outcomes)?;
        st.end()
    }
}

impl Condition<EP> for Scripted {
    fn init(&self, _problem: &EP, _state: &mut State<EP>) -> ExecResult<()> {
        self.sh.enter(self.id, Phase::Init)
    }
    fn require(&self, _problem: &EP, _state_req: &StateReq<EP>) -> ExecResult<()> {
        self.sh.enter(self.id, Phase::Require)
    }
    fn evaluate(&self, _problem: &EP, _state: &mut State<EP>) -> ExecResult<bool> {
        self.sh.enter(self.id, Phase::Exec)?;
        let value = {
            let mut c = self.sh.cursors.lock().unwrap();
            let cur = c.entry(self.id).or_insert(0);
            let v = self.outcomes.get(*cur).copied().unwrap_or(false);
            *cur += 1;
            v
        };
        self.sh.push(Ev::Eval { id: self.id, value, aux: None });
        Ok(value)
    }
}

/// Wraps a real mahf condition: records phase entries and results, may inject a failure.
#[derive(Clone)]
struct Spy {
    id: u32,
    inner: Box<dyn Condition<EP>>,
    /// probe/IT tag whose `Progress<ValueOf<_>>` to report after each evaluation
    progress_of: Option<u8>,
    sh: Arc<Shared>,
}

impl Serialize for Spy {
    fn serialize<S: Serializer>(&self, s: S) -> Result<S::Ok, S::Error> {
        s.serialize_newtype_struct("Spy", &self.inner)
    }
}

fn read_progress(state: &State<EP>, t: u8) -> Option<u64> {
    if t == TAG_IT {
        state.try_get_value::<Progress<ValueOf<Iterations>>>().ok().map(|v| v.to_bits())
    } else if t == TAG_F0 {
        state.try_get_value::<Progress<ValueOf<F0>>>().ok().map(|v| v.to_bits())
    } else {
        with_ty!(t, T => state.try_get_value::<Progress<ValueOf<T>>>().ok().map(|v| v.to_bits()))
    }
}

impl Condition<EP> for Spy {
    fn init(&self, problem: &EP, state: &mut State<EP>) -> ExecResult<()> {
        self.sh.enter(self.id, Phase::Init)?;
        self.inner.init(problem, state)
    }
    fn require(&self, problem: &EP, state_req: &StateReq<EP>) -> ExecResult<()> {
        self.sh.enter(self.id, Phase::Require)?;
        self.inner.require(problem, state_req)
    }
    fn evaluate(&self, problem: &EP, state: &mut State<EP>) -> ExecResult<bool> {
        self.sh.enter(self.id, Phase::Exec)?;
        let value = self.inner.evaluate(problem, state)?;
        let aux = self.progress_of.and_then(|t| read_progress(state, t));
        self.sh.push(Ev::Eval { id: self.id, value, aux });
        Ok(value)
    }
}

thread_local! {
    /// the run context the plain-`fn` scope hooks report to (they cannot capture anything)
    static HOOK_SHARED: std::cell::RefCell<Option<Arc<Shared>>> = const { std::cell::RefCell::new(None) };
}

pub const HOOK_INIT_ID: u32 = 10_000;
pub const HOOK_MERGE_ID: u32 = 20_000;

fn hook_enter(id: u32, phase: Phase) -> ExecResult<()> {
    let sh = HOOK_SHARED.with(|h| h.borrow().clone());
    match sh {
        Some(sh) => sh.enter(id, phase),
        None => Ok(()),
    }
}

fn scope_init<const K: u8>(state: &mut State<EP>) -> ExecResult<()> {
    hook_enter(HOOK_INIT_ID + K as u32, Phase::Init)?;
    // even hooks put a value into the child (copied into the parent by the merge), odd hooks
    // leave the child as it is (their merge does not look at it); hooks 3 and 7 seed a pass counter
    if K % 2 == 0 {
        state.insert(T5(500 + K as u32));
    }
    if K % 4 == 3 {
        state.insert(Iterations(7));
    }
    Ok(())
}

fn scope_merge<const K: u8>(parent: &mut State<EP>, child: State<EP>) -> ExecResult<()> {
    hook_enter(HOOK_MERGE_ID + K as u32, Phase::Exec)?;
    if K % 2 == 0 {
        if let Ok(v) = child.try_get_value::<T5>() {
            parent.insert(T4(v));
        }
    } else {
        parent.insert(T4(700 + K as u32));
    }
    Ok(())
}

type InitFn = fn(&mut State<EP>) -> ExecResult<()>;
type MergeFn = fn(&mut State<EP>, State<EP>) -> ExecResult<()>;
const INIT_FNS: [InitFn; 8] = [scope_init::<0>, scope_init::<1>, scope_init::<2>, scope_init::<3>, scope_init::<4>, scope_init::<5>, scope_init::<6>, scope_init::<7>];
const MERGE_FNS: [MergeFn; 8] = [scope_merge::<0>, scope_merge::<1>, scope_merge::<2>, scope_merge::<3>, scope_merge::<4>, scope_merge::<5>, scope_merge::<6>, scope_merge::<7>];

pub fn build_cond(c: &Cond, sh: &Arc<Shared>) -> Box<dyn Condition<EP>> {
    let spy = |id: u32, inner: Box<dyn Condition<EP>>, progress_of: Option<u8>| -> Box<dyn Condition<EP>> {
        Box::new(Spy { id, inner, progress_of, sh: sh.clone() })
    };
    match c {
        Cond::Scripted { id, outcomes } => Box::new(Scripted {
            id: *id,
            outcomes: outcomes.clone(),
            sh: sh.clone(),
        }),
        Cond::LessThan { id, t, n } => {
            let inner = if *t == TAG_IT {
                LessThanN::iterations(*n)
            } else {
                with_ty!(*t, T => LessThanN::new(*n, ValueOf::<T>::new()))
            };
            spy(*id, inner, Some(*t))
        }
        Cond::LessThanF { id, n } => spy(*id, LessThanN::new(*n, ValueOf::<F0>::new()), Some(TAG_F0)),
        Cond::EveryN { id, t, n } => {
            let inner = if *t == TAG_IT {
                EveryN::iterations(*n)
            } else {
                with_ty!(*t, T => EveryN::new(*n, ValueOf::<T>::new()))
            };
            spy(*id, inner, None)
        }
        Cond::ChangeDelta { id, t, threshold } => {
            let inner = if *t == TAG_IT {
                ChangeOf::new(DeltaEqChecker::new(*threshold), ValueOf::<Iterations>::new())
            } else {
                with_ty!(*t, T => ChangeOf::new(DeltaEqChecker::new(*threshold), ValueOf::<T>::new()))
            };
            spy(*id, inner, None)
        }
        Cond::ChangeEq { id, t } => {
            let inner = if *t == TAG_IT {
                ChangeOf::new(PartialEqChecker::new(), ValueOf::<Iterations>::new())
            } else {
                with_ty!(*t, T => ChangeOf::new(PartialEqChecker::new(), ValueOf::<T>::new()))
            };
            spy(*id, inner, None)
        }
        Cond::Optimum { id, eps } => spy(*id, OptimumReached::new(*eps).expect("harness: eps >= 0"), None),
        Cond::And { id, ops } => spy(
            *id,
            mahf::conditions::And::new(ops.iter().map(|o| build_cond(o, sh)).collect::<Vec<_>>()),
            None,
        ),
        Cond::Or { id, ops } => spy(
            *id,
            mahf::conditions::Or::new(ops.iter().map(|o| build_cond(o, sh)).collect::<Vec<_>>()),
            None,
        ),
        Cond::Not { id, inner } => spy(*id, mahf::conditions::Not::new(build_cond(inner, sh)), None),
    }
}

pub fn build_nodes(
    nodes: &[Node],
    sh: &Arc<Shared>,
    mut b: ConfigurationBuilder<EP>,
) -> ConfigurationBuilder<EP> {
    for n in nodes {
        b = match n {
            Node::Leaf { id, init_ops, req, ops } => {
                let leaf: Box<dyn Component<EP>> = Box::new(ProbeLeaf {
                    id: *id,
                    init_ops: init_ops.clone(),
                    req: *req,
                    ops: ops.clone(),
                    sh: sh.clone(),
                });
                // exercise every way the builder accepts a component (the choice is a function
                // of the node id only, so a case always builds the same configuration)
                match id % 4 {
                    0 => b.do_if_some_(None).do_if_some_(Some(leaf)),
                    1 => b.do_many_(vec![leaf]),
                    2 => b.do_many_(Vec::new()).do_(leaf),
                    _ => b.do_(leaf),
                }
            }
            Node::While { cond, body, .. } => {
                b.while_(build_cond(cond, sh), |bb| build_nodes(body, sh, bb))
            }
            Node::If { cond, then, els, .. } => match els {
                Some(e) => b.if_else_(
                    build_cond(cond, sh),
                    |bb| build_nodes(then, sh, bb),
                    |bb| build_nodes(e, sh, bb),
                ),
                None => b.if_(build_cond(cond, sh), |bb| build_nodes(then, sh, bb)),
            },
            Node::Scope { body, hooks: None, .. } => b.scope_(|bb| build_nodes(body, sh, bb)),
            Node::Scope { body, hooks: Some(k), .. } => {
                let inner = build_nodes(body, sh, Configuration::builder()).build_component();
                b.do_(mahf::components::Scope::new_with(INIT_FNS[*k as usize % 8], inner, MERGE_FNS[*k as usize % 8]))
            }
            Node::Logger { .. } => b.do_(Logger::new()),
        };
    }
    b
}

pub fn build_config(p: &Program, sh: &Arc<Shared>) -> Configuration<EP> {
    build_nodes(&p.root, sh, Configuration::builder()).build()
}

pub fn it_name() -> &'static str {
    std::any::type_name::<Iterations>()
}

pub fn type_name_of(t: u8) -> &'static str {
    if t == TAG_IT {
        it_name()
    } else {
        with_ty!(t, T => std::any::type_name::<T>())
    }
}

fn extractor_of(r: &Rule) -> Box<dyn mahf::logging::extractor::EntryExtractor<EP>> {
    if r.t == TAG_IT {
        match r.kind {
            ExtractorKind::ValueOf | ExtractorKind::AliasT0 => ValueOf::<Iterations>::entry(),
            ExtractorKind::IdLens => IdLens::<Iterations>::entry(),
        }
    } else {
        with_ty!(r.t, T => match r.kind {
            ExtractorKind::ValueOf => ValueOf::<T>::entry(),
            ExtractorKind::IdLens => IdLens::<T>::entry(),
            ExtractorKind::AliasT0 => Box::new(AliasLens::<T>(std::marker::PhantomData)),
        })
    }
}

/// Builds the real `LogConfig`, going through every way of adding rules: consecutive rules with
/// the same trigger are added with `with_many` (which clones the trigger per extractor), whole-state
/// extractors with `with_auto`, the rest with `with`.
pub fn build_log_config(rules: &[Rule], sh: &Arc<Shared>) -> LogConfig<EP> {
    let mut cfg = LogConfig::<EP>::new();
    let mut i = 0;
    while i < rules.len() {
        let mut j = i + 1;
        while j < rules.len() && rules[j].trigger == rules[i].trigger {
            j += 1;
        }
        if j - i >= 2 {
            cfg.with_many(build_cond(&rules[i].trigger, sh), rules[i..j].iter().map(extractor_of).collect::<Vec<_>>());
        } else {
            let r = &rules[i];
            let trig = build_cond(&r.trigger, sh);
            if r.kind == ExtractorKind::IdLens {
                if r.t == TAG_IT {
                    cfg.with_auto::<Iterations>(trig);
                } else {
                    with_ty!(r.t, T => { cfg.with_auto::<T>(trig); });
                }
            } else {
                cfg.with(trig, extractor_of(r));
            }
        }
        i = j;
    }
    cfg
}

pub fn classify_error(e: &eyre::Report) -> RunEnd {
    for cause in e.chain() {
        let s = cause.to_string();
        if s == "step-budget exhausted" {
            return RunEnd::Budget;
        }
        if let Some(rest) = s.strip_prefix("injected-fault id=") {
            // id=<id> phase=<phase> occ=<occ>
            let parts: Vec<&str> = rest.split(' ').collect();
            if parts.len() == 3 {
                let id = parts[0].parse().ok();
                let phase = match parts[1].strip_prefix("phase=") {
                    Some("Init") => Some(Phase::Init),
                    Some("Require") => Some(Phase::Require),
                    Some("Exec") => Some(Phase::Exec),
                    _ => None,
                };
                let occ = parts[2].strip_prefix("occ=").and_then(|x| x.parse().ok());
                if let (Some(id), Some(phase), Some(occ)) = (id, phase, occ) {
                    return RunEnd::Injected { id, phase, occ };
                }
            }
        }
        if let Some(se) = cause.downcast_ref::<StateError>() {
            return match se {
                StateError::NotFound(_) => RunEnd::NotFound,
                StateError::RequiredMissing(..) => RunEnd::RequiredMissing,
                other => RunEnd::Other(other.to_string()),
            };
        }
    }
    RunEnd::Other(format!("{e:#}"))
}

// ---------------------------------------------------------------------------------------------
// reference interpreter

#[derive(Debug, Clone, PartialEq)]
pub enum MErr {
    Injected(u32, Phase, u32),
    NotFound,
    RequiredMissing,
    Panic,
    Budget,
}

pub struct Interp<'p> {
    pub model: Model,
    pub trace: Vec<Ev>,
    pub log: ExpLog,
    counts: BTreeMap<(u32, Phase), u32>,
    cursors: BTreeMap<u32, usize>,
    fault: Option<Fault>,
    rules: Option<&'p [Rule]>,
    snaps: bool,
    /// number of leaf executions / condition evaluations (simulated steps)
    pub steps: u64,
    pub probes: BTreeMap<&'static str, u64>,
    scope_depth: usize,
    loop_depth: usize,
    total: u32,
    optimum: f64,
}

type MRes<T> = Result<T, MErr>;

impl<'p> Interp<'p> {
    pub fn new(p: &'p Program, fault: Option<Fault>, snaps: bool) -> Self {
        let mut it = Interp {
            model: Model::default(),
            trace: Vec::new(),
            log: Vec::new(),
            counts: BTreeMap::new(),
            cursors: BTreeMap::new(),
            fault,
            rules: p.log_rules.as_deref(),
            snaps,
            steps: 0,
            probes: BTreeMap::new(),
            scope_depth: 0,
            loop_depth: 0,
            total: 0,
            optimum: p.optimum,
        };
        for op in &p.pre_ops {
            it.model.apply(op);
        }
        it
    }

    fn probe(&mut self, name: &'static str) {
        *self.probes.entry(name).or_insert(0) += 1;
    }

    fn enter(&mut self, id: u32, phase: Phase) -> MRes<()> {
        let e = self.counts.entry((id, phase)).or_insert(0);
        let occ = *e;
        *e += 1;
        self.trace.push(Ev::Enter { id, phase, occ });
        if self.fault == Some(Fault { id, phase, occ }) {
            if self.scope_depth >= 2 {
                self.probe("fault at scope depth >= 2");
            }
            if self.scope_depth >= 1 {
                self.probe("scope exit forced by failure");
            }
            return Err(MErr::Injected(id, phase, occ));
        }
        self.total += 1;
        if self.total > STEP_LIMIT {
            return Err(MErr::Budget);
        }
        Ok(())
    }

    pub fn run(&mut self, p: &Program) -> RunEnd {
        let first = self.run_once(p, false);
        if p.resume && resumable(&self.trace, &first) {
            self.probe("execution resumed on the same state after an error");
            return self.run_once(p, true);
        }
        first
    }

    fn run_once(&mut self, p: &Program, resume: bool) -> RunEnd {
        let r = (|| {
            if !resume {
                self.init_nodes(&p.root)?;
                self.require_nodes(&p.root)?;
            }
            self.exec_nodes(&p.root)
        })();
        match r {
            Ok(()) => RunEnd::Ok,
            Err(MErr::Injected(id, phase, occ)) => RunEnd::Injected { id, phase, occ },
            Err(MErr::NotFound) => RunEnd::NotFound,
            Err(MErr::RequiredMissing) => {
                self.probe("requirement failure");
                RunEnd::RequiredMissing
            }
            Err(MErr::Panic) => RunEnd::Panicked,
            Err(MErr::Budget) => RunEnd::Budget,
        }
    }

    fn init_nodes(&mut self, nodes: &[Node]) -> MRes<()> {
        for n in nodes {
            match n {
                Node::Leaf { id, init_ops, .. } => {
                    self.enter(*id, Phase::Init)?;
                    for (i, op) in init_ops.iter().enumerate() {
                        let ret = self.model.apply(op);
                        self.trace.push(Ev::Ret { id: *id, idx: 1000 + i as u32, ret });
                    }
                }
                Node::While { cond, body, .. } => {
                    self.model.top().insert(TAG_IT, 0);
                    self.cond_init(cond)?;
                    self.init_nodes(body)?;
                }
                Node::If { cond, then, els, .. } => {
                    self.cond_init(cond)?;
                    self.init_nodes(then)?;
                    if let Some(e) = els {
                        self.init_nodes(e)?;
                    }
                }
                Node::Scope { .. } => {}
                Node::Logger { .. } => {
                    if let Some(rules) = self.rules {
                        if self.model.find(TAG_LOGCFG).is_some() {
                            let r = self.holding_logcfg(|me| {
                                for r in rules {
                                    me.cond_init(&r.trigger)?;
                                }
                                Ok(())
                            });
                            r?;
                        }
                    }
                }
            }
        }
        Ok(())
    }

    fn holding_logcfg(&mut self, f: impl FnOnce(&mut Self) -> MRes<()>) -> MRes<()> {
        // `State::holding`: the config is out of the registry while the closure runs and is put
        // back into the scope it came from whether or not the closure fails
        let i = self.model.find(TAG_LOGCFG).expect("checked by caller");
        let v = self.model.scopes[i].remove(&TAG_LOGCFG).unwrap();
        let r = f(self);
        self.model.scopes[i].insert(TAG_LOGCFG, v);
        r
    }

    fn require_nodes(&mut self, nodes: &[Node]) -> MRes<()> {
        for n in nodes {
            match n {
                Node::Leaf { id, req, .. } => {
                    self.enter(*id, Phase::Require)?;
                    if let Some(t) = req {
                        if self.model.find(*t).is_none() {
                            return Err(MErr::RequiredMissing);
                        }
                    }
                }
                Node::While { cond, body, .. } => {
                    self.cond_require(cond)?;
                    self.require_nodes(body)?;
                }
                Node::If { cond, then, els, .. } => {
                    self.cond_require(cond)?;
                    self.require_nodes(then)?;
                    if let Some(e) = els {
                        self.require_nodes(e)?;
                    }
                }
                Node::Scope { .. } | Node::Logger { .. } => {}
            }
        }
        Ok(())
    }

    fn exec_nodes(&mut self, nodes: &[Node]) -> MRes<()> {
        for n in nodes {
            match n {
                Node::Leaf { id, ops, .. } => {
                    self.enter(*id, Phase::Exec)?;
                    self.steps += 1;
                    for (i, op) in ops.iter().enumerate() {
                        let ret = self.model.apply(op);
                        self.trace.push(Ev::Ret { id: *id, idx: i as u32, ret });
                    }
                    if self.snaps {
                        let levels = self.visible_levels();
                        self.trace.push(Ev::Snap { id: *id, levels });
                    }
                }
                Node::While { cond, body, .. } => {
                    if self.scope_depth > 0 {
                        self.probe("loop inside scope");
                    }
                    self.cond_init(cond)?;
                    let mut passes = 0u32;
                    self.loop_depth += 1;
                    let r = (|| {
                        while self.cond_eval(cond)? {
                            self.exec_nodes(body)?;
                            match self.model.find(TAG_IT) {
                                Some(i) => {
                                    *self.model.scopes[i].get_mut(&TAG_IT).unwrap() += 1;
                                }
                                None => return Err(MErr::NotFound),
                            }
                            passes += 1;
                        }
                        Ok(())
                    })();
                    self.loop_depth -= 1;
                    r?;
                    if passes == 0 {
                        self.probe("zero-pass loop");
                    }
                }
                Node::If { cond, then, els, .. } => {
                    if self.cond_eval(cond)? {
                        self.exec_nodes(then)?;
                    } else if let Some(e) = els {
                        self.exec_nodes(e)?;
                    }
                }
                Node::Scope { body, hooks, .. } => {
                    self.model.scopes.push(BTreeMap::new());
                    self.scope_depth += 1;
                    if self.scope_depth >= 2 {
                        self.probe("scope nesting >= 2");
                    }
                    let r = (|| {
                        if let Some(k) = hooks {
                            self.enter(HOOK_INIT_ID + (*k % 8) as u32, Phase::Init)?;
                            if k % 2 == 0 {
                                self.model.top().insert(5, 500 + (*k % 8) as u64);
                            }
                            if k % 4 == 3 {
                                self.model.top().insert(TAG_IT, 7);
                            }
                        }
                        self.init_nodes(body)?;
                        self.require_nodes(body)?;
                        self.exec_nodes(body)
                    })();
                    self.scope_depth -= 1;
                    let child = self.model.scopes.pop().unwrap();
                    // the first error is returned with the scope closed; nothing is merged
                    r?;
                    if let Some(k) = hooks {
                        self.probe("scope with state-init and merge hooks");
                        self.enter(HOOK_MERGE_ID + (*k % 8) as u32, Phase::Exec)?;
                        if k % 2 == 0 {
                            if let Some(v) = child.get(&5) {
                                self.model.top().insert(4, *v);
                            }
                        } else {
                            if child.is_empty() {
                                self.probe("merge hook after a body that left the child scope empty");
                            }
                            self.model.top().insert(4, 700 + (*k % 8) as u64);
                        }
                    }
                }
                Node::Logger { .. } => {
                    self.steps += 1;
                    if let Some(rules) = self.rules {
                        if self.model.find(TAG_LOGCFG).is_some() {
                            let r = self.holding_logcfg(|me| {
                                let mut step: Vec<(String, Option<u64>)> = Vec::new();
                                for r in rules {
                                    if me.cond_eval(&r.trigger)? {
                                        let name = rule_name(r).to_string();
                                        if let Some((_, first)) = step.iter().find(|(n, _)| *n == name) {
                                            if *first != me.model.get(r.t) {
                                                me.probe("duplicate entry name with another value dropped");
                                            }
                                            me.probe("duplicate entry name dropped");
                                        } else {
                                            step.push((name, me.model.get(r.t)));
                                        }
                                    }
                                }
                                if !step.is_empty() {
                                    let itn = it_name().to_string();
                                    if !step.iter().any(|(n, _)| *n == itn) {
                                        match me.model.get(TAG_IT) {
                                            Some(v) => step.insert(0, (itn, Some(v))),
                                            None => return Err(MErr::Panic),
                                        }
                                    }
                                    if step.iter().any(|(_, v)| v.is_none()) {
                                        me.probe("null entry for missing source");
                                    }
                                    me.log.push(step.into_iter().collect());
                                } else {
                                    me.probe("logger execution with nothing fired");
                                }
                                Ok(())
                            });
                            r?;
                        }
                    }
                }
            }
        }
        Ok(())
    }

    /// Scope stack restricted to the tags the real snapshot can observe.
    pub fn visible_levels(&self) -> Vec<BTreeMap<u8, u64>> {
        self.model
            .scopes
            .iter()
            .map(|m| m.iter().filter(|(k, _)| **k < 32).map(|(k, v)| (*k, *v)).collect())
            .collect()
    }

    fn cond_init(&mut self, c: &Cond) -> MRes<()> {
        self.enter(c.id(), Phase::Init)?;
        match c {
            Cond::Scripted { .. } | Cond::EveryN { .. } | Cond::Optimum { .. } => {}
            Cond::LessThan { t, .. } => {
                self.model.top().insert(tag_progress(*t), 0f64.to_bits());
            }
            Cond::LessThanF { .. } => {
                self.model.top().insert(tag_progress(TAG_F0), 0f64.to_bits());
            }
            Cond::ChangeDelta { t, .. } | Cond::ChangeEq { t, .. } => {
                self.model.top().insert(tag_prev(*t), NONE);
            }
            Cond::And { ops, .. } | Cond::Or { ops, .. } => {
                for o in ops {
                    self.cond_init(o)?;
                }
            }
            Cond::Not { inner, .. } => self.cond_init(inner)?,
        }
        Ok(())
    }

    fn cond_require(&mut self, c: &Cond) -> MRes<()> {
        self.enter(c.id(), Phase::Require)?;
        match c {
            Cond::And { ops, .. } | Cond::Or { ops, .. } => {
                for o in ops {
                    self.cond_require(o)?;
                }
            }
            Cond::Not { inner, .. } => self.cond_require(inner)?,
            _ => {}
        }
        Ok(())
    }

    fn cond_eval(&mut self, c: &Cond) -> MRes<bool> {
        self.enter(c.id(), Phase::Exec)?;
        self.steps += 1;
        let (value, aux) = match c {
            Cond::Scripted { id, outcomes } => {
                let cur = self.cursors.entry(*id).or_insert(0);
                let v = outcomes.get(*cur).copied().unwrap_or(false);
                *cur += 1;
                (v, None)
            }
            Cond::LessThan { t, n, .. } => {
                let value = self.model.get(*t).ok_or(MErr::NotFound)? as u32;
                let progress = f64::from(value) / f64::from(*n);
                self.model.set(tag_progress(*t), progress.to_bits());
                (value < *n, self.model.get(tag_progress(*t)))
            }
            Cond::LessThanF { n, .. } => {
                let value = f64::from_bits(self.model.get(TAG_F0).ok_or(MErr::NotFound)?);
                let progress = value / *n;
                self.model.set(tag_progress(TAG_F0), progress.to_bits());
                if value.is_nan() {
                    self.probe("less-than-n over a NaN value");
                }
                // true exactly while the value is below n: NaN is not below anything
                (value < *n, self.model.get(tag_progress(TAG_F0)))
            }
            Cond::EveryN { t, n, .. } => {
                let value = self.model.get(*t).ok_or(MErr::NotFound)? as u32;
                (value % *n == 0, None)
            }
            Cond::ChangeDelta { t, threshold, .. } => {
                let cur = self.model.get(*t).ok_or(MErr::NotFound)?;
                let prev = self.model.get(tag_prev(*t)).ok_or(MErr::NotFound)?;
                let changed = if prev == NONE {
                    true
                } else {
                    let d = if cur < prev { prev - cur } else { cur - prev };
                    d >= *threshold as u64
                };
                if changed {
                    self.model.set(tag_prev(*t), cur);
                    self.probe("change-of: change reported");
                } else {
                    self.probe("change-of: sub-threshold move");
                }
                (changed, None)
            }
            Cond::ChangeEq { t, .. } => {
                let cur = self.model.get(*t).ok_or(MErr::NotFound)?;
                let prev = self.model.get(tag_prev(*t)).ok_or(MErr::NotFound)?;
                let changed = prev == NONE || prev != cur;
                if changed {
                    self.model.set(tag_prev(*t), cur);
                } else {
                    self.probe("change-of: repeated value");
                }
                (changed, None)
            }
            Cond::Optimum { eps, .. } => {
                let v = match self.model.get(TAG_BEST) {
                    Some(bits) if bits != NONE => f64::from_bits(bits) <= self.optimum + *eps,
                    _ => false,
                };
                (v, None)
            }
            Cond::And { ops, .. } => {
                let mut all = true;
                for o in ops {
                    all &= self.cond_eval(o)?;
                }
                (all, None)
            }
            Cond::Or { ops, .. } => {
                let mut any = false;
                for o in ops {
                    any |= self.cond_eval(o)?;
                }
                (any, None)
            }
            Cond::Not { inner, .. } => (!self.cond_eval(inner)?, None),
        };
        self.trace.push(Ev::Eval { id: c.id(), value, aux });
        Ok(value)
    }
}

/// Model tag of the `LogConfig` (presence only).
pub use super::ops::TAG_LOGCFG;

// ---------------------------------------------------------------------------------------------
// executing the real configuration

pub struct RealRun {
    pub end: RunEnd,
    pub trace: Vec<Ev>,
    /// scope stack of the caller's state after `run` returned (observable tags only)
    pub final_levels: Vec<BTreeMap<u8, u64>>,
    pub logcfg_present: bool,
    pub state: Option<St>,
    pub panic: Option<String>,
}

pub fn run_real(p: &Program, fault: Option<Fault>, snaps: bool, clone_config: bool) -> RealRun {
    KNOWN_OPTIMUM.with(|o| o.set(p.optimum));
    let r = run_real_inner(p, fault, snaps, clone_config);
    KNOWN_OPTIMUM.with(|o| o.set(0.0));
    r
}

fn run_real_inner(p: &Program, fault: Option<Fault>, snaps: bool, clone_config: bool) -> RealRun {
    let sh = Shared::new(fault, snaps);
    let mut state: St = State::new();
    state.insert(mahf::logging::Log::new());
    for op in &p.pre_ops {
        apply_real(op, &mut state);
    }
    if let Some(rules) = &p.log_rules {
        state.insert(build_log_config(rules, &sh));
    }
    let config = build_config(p, &sh);
    let config = if clone_config { config.clone() } else { config };
    HOOK_SHARED.with(|h| *h.borrow_mut() = Some(sh.clone()));
    let r = crate::framework::guarded(|| config.run(&EP, &mut state));
    HOOK_SHARED.with(|h| *h.borrow_mut() = None);
    let (mut end, mut panic) = match r {
        Ok(Ok(())) => (RunEnd::Ok, None),
        Ok(Err(e)) => (classify_error(&e), None),
        Err(p) => (RunEnd::Panicked, Some(p)),
    };
    if p.resume && resumable(&sh.trace.lock().unwrap(), &end) {
        HOOK_SHARED.with(|h| *h.borrow_mut() = Some(sh.clone()));
        let r = crate::framework::guarded(|| config.heuristic().execute(&EP, &mut state));
        HOOK_SHARED.with(|h| *h.borrow_mut() = None);
        (end, panic) = match r {
            Ok(Ok(())) => (RunEnd::Ok, None),
            Ok(Err(e)) => (classify_error(&e), None),
            Err(p) => (RunEnd::Panicked, Some(p)),
        };
    }
    let trace = std::mem::take(&mut *sh.trace.lock().unwrap());
    let final_levels = snapshot(&state);
    let logcfg_present = state.contains::<LogConfig<EP>>();
    RealRun {
        end,
        trace,
        final_levels,
        logcfg_present,
        state: Some(state),
        panic,
    }
}

/// First difference between expected and actual trace, rendered for a violation message.
fn close_bits(a: u64, b: u64) -> bool {
    if a == b {
        return true;
    }
    let (x, y) = (f64::from_bits(a), f64::from_bits(b));
    (x.is_nan() && y.is_nan()) || (x.is_finite() && y.is_finite() && (x - y).abs() <= 1e-12 * (1.0 + x.abs().max(y.abs())))
}

/// Event equality; progress values (floating point) are compared up to rounding, so that an
/// algebraically equivalent way of computing value / n is not reported.
pub fn ev_eq(a: &Ev, b: &Ev) -> bool {
    match (a, b) {
        (Ev::Eval { id: i1, value: v1, aux: a1 }, Ev::Eval { id: i2, value: v2, aux: a2 }) => {
            i1 == i2 && v1 == v2 && match (a1, a2) {
                (Some(x), Some(y)) => close_bits(*x, *y),
                (None, None) => true,
                _ => false,
            }
        }
        (Ev::Snap { id: i1, levels: l1 }, Ev::Snap { id: i2, levels: l2 }) => i1 == i2 && levels_eq(l1, l2),
        _ => a == b,
    }
}

pub fn levels_eq(l1: &[BTreeMap<u8, u64>], l2: &[BTreeMap<u8, u64>]) -> bool {
    l1.len() == l2.len()
        && l1.iter().zip(l2).all(|(m1, m2)| {
            m1.len() == m2.len()
                && m1.iter().zip(m2.iter()).all(|((k1, v1), (k2, v2))| k1 == k2 && if (16..32).contains(k1) { close_bits(*v1, *v2) } else { v1 == v2 })
        })
}

pub fn trace_diff(exp: &[Ev], act: &[Ev]) -> Option<String> {
    let n = exp.len().min(act.len());
    for i in 0..n {
        if !ev_eq(&exp[i], &act[i]) {
            return Some(format!(
                "event #{i}: expected {:?}, real {:?}",
                exp[i], act[i]
            ));
        }
    }
    if exp.len() != act.len() {
        let (what, ev) = if exp.len() > act.len() {
            ("real trace ends early; expected next", &exp[n])
        } else {
            ("real trace has extra event", &act[n])
        };
        return Some(format!("event #{n}: {what} {:?}", ev));
    }
    None
}

/// Stable class of a trace difference (ignores ids and values).
pub fn diff_class(exp: &[Ev], act: &[Ev]) -> String {
    let n = exp.len().min(act.len());
    let kind = |e: &Ev| match e {
        Ev::Enter { phase, .. } => format!("enter-{phase:?}"),
        Ev::Ret { .. } => "op-result".to_string(),
        Ev::Snap { .. } => "snapshot".to_string(),
        Ev::Eval { .. } => "condition-value".to_string(),
    };
    for i in 0..n {
        if !ev_eq(&exp[i], &act[i]) {
            return format!("trace-mismatch expected={} real={}", kind(&exp[i]), kind(&act[i]));
        }
    }
    if exp.len() > act.len() {
        format!("trace-short expected={}", kind(&exp[n]))
    } else if act.len() > exp.len() {
        format!("trace-extra real={}", kind(&act[n]))
    } else {
        "trace-equal".to_string()
    }
}

// ---------------------------------------------------------------------------------------------
// traversal helpers

pub fn count_nodes(nodes: &[Node]) -> usize {
    nodes
        .iter()
        .map(|n| match n {
            Node::Leaf { .. } | Node::Logger { .. } => 1,
            Node::While { body, .. } | Node::Scope { body, .. } => 1 + count_nodes(body),
            Node::If { then, els, .. } => {
                1 + count_nodes(then) + els.as_ref().map(|e| count_nodes(e)).unwrap_or(0)
            }
        })
        .sum()
}

/// Structural shrink candidates of a node list.
pub fn shrink_nodes(nodes: &[Node]) -> Vec<Vec<Node>> {
    let mut out = Vec::new();
    for i in 0..nodes.len() {
        // drop node i
        let mut v = nodes.to_vec();
        v.remove(i);
        out.push(v);
        // replace node i by its children
        let children: Option<Vec<Node>> = match &nodes[i] {
            Node::While { body, .. } | Node::Scope { body, .. } => Some(body.clone()),
            Node::If { then, .. } => Some(then.clone()),
            _ => None,
        };
        if let Some(ch) = children {
            let mut v = nodes.to_vec();
            v.splice(i..=i, ch);
            out.push(v);
        }
    }
    for i in 0..nodes.len() {
        match &nodes[i] {
            Node::Leaf { id, init_ops, req, ops } => {
                for s in shrink_ops(ops) {
                    let mut v = nodes.to_vec();
                    v[i] = Node::Leaf { id: *id, init_ops: init_ops.clone(), req: *req, ops: s };
                    out.push(v);
                }
                for s in shrink_ops(init_ops) {
                    let mut v = nodes.to_vec();
                    v[i] = Node::Leaf { id: *id, init_ops: s, req: *req, ops: ops.clone() };
                    out.push(v);
                }
                if req.is_some() {
                    let mut v = nodes.to_vec();
                    v[i] = Node::Leaf { id: *id, init_ops: init_ops.clone(), req: None, ops: ops.clone() };
                    out.push(v);
                }
            }
            Node::While { id, cond, body } => {
                for s in shrink_nodes(body) {
                    let mut v = nodes.to_vec();
                    v[i] = Node::While { id: *id, cond: cond.clone(), body: s };
                    out.push(v);
                }
                for c in shrink_cond(cond) {
                    let mut v = nodes.to_vec();
                    v[i] = Node::While { id: *id, cond: c, body: body.clone() };
                    out.push(v);
                }
            }
            Node::Scope { id, body, hooks } => {
                for s in shrink_nodes(body) {
                    let mut v = nodes.to_vec();
                    v[i] = Node::Scope { id: *id, body: s, hooks: *hooks };
                    out.push(v);
                }
                if hooks.is_some() {
                    let mut v = nodes.to_vec();
                    v[i] = Node::Scope { id: *id, body: body.clone(), hooks: None };
                    out.push(v);
                }
            }
            Node::If { id, cond, then, els } => {
                for s in shrink_nodes(then) {
                    let mut v = nodes.to_vec();
                    v[i] = Node::If { id: *id, cond: cond.clone(), then: s, els: els.clone() };
                    out.push(v);
                }
                if let Some(e) = els {
                    let mut v = nodes.to_vec();
                    v[i] = Node::If { id: *id, cond: cond.clone(), then: then.clone(), els: None };
                    out.push(v);
                    for s in shrink_nodes(e) {
                        let mut v = nodes.to_vec();
                        v[i] = Node::If { id: *id, cond: cond.clone(), then: then.clone(), els: Some(s) };
                        out.push(v);
                    }
                }
                for c in shrink_cond(cond) {
                    let mut v = nodes.to_vec();
                    v[i] = Node::If { id: *id, cond: c, then: then.clone(), els: els.clone() };
                    out.push(v);
                }
            }
            Node::Logger { .. } => {}
        }
    }
    out
}

pub fn shrink_cond(c: &Cond) -> Vec<Cond> {
    let mut out = Vec::new();
    match c {
        Cond::Scripted { id, outcomes } => {
            if !outcomes.is_empty() {
                out.push(Cond::Scripted { id: *id, outcomes: outcomes[..outcomes.len() - 1].to_vec() });
                out.push(Cond::Scripted { id: *id, outcomes: outcomes[1..].to_vec() });
            }
        }
        Cond::LessThan { id, t, n } if *n > 1 => {
            out.push(Cond::LessThan { id: *id, t: *t, n: n / 2 });
            out.push(Cond::LessThan { id: *id, t: *t, n: n - 1 });
        }
        Cond::And { id, ops } | Cond::Or { id, ops } => {
            let is_and = matches!(c, Cond::And { .. });
            for o in ops {
                out.push(o.clone());
            }
            if ops.len() > 1 {
                for i in 0..ops.len() {
                    let mut v = ops.clone();
                    v.remove(i);
                    out.push(if is_and { Cond::And { id: *id, ops: v } } else { Cond::Or { id: *id, ops: v } });
                }
            }
            for i in 0..ops.len() {
                for s in shrink_cond(&ops[i]) {
                    let mut v = ops.clone();
                    v[i] = s;
                    out.push(if is_and { Cond::And { id: *id, ops: v } } else { Cond::Or { id: *id, ops: v } });
                }
            }
        }
        Cond::Not { id, inner } => {
            out.push((**inner).clone());
            for s in shrink_cond(inner) {
                out.push(Cond::Not { id: *id, inner: Box::new(s) });
            }
        }
        _ => {}
    }
    out
}
