//! Engine world: the state registry, borrows, control flow, conditions and logging driven by
//! harness-defined probe components inside generated configurations.

pub mod types;
pub mod ops;
pub mod program;
pub mod gen;
pub mod multi;
pub mod multi_catalogue;
