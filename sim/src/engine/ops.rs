//! Registry operations, the stack-of-maps reference model, and their lock-step execution on a
//! real `mahf::State`.

use super::types::*;
use crate::framework::guarded;
use crate::with_ty;
use mahf::lens::ValueOf;
use mahf::state::common::{BestIndividual, Iterations, Progress};
use mahf::state::registry::Entry;
use mahf::{Individual, SingleObjective, State, StateError, StateRegistry};

/// Model tag of the best-individual memory (value: objective bits, `NONE` if empty).
pub const TAG_BEST: u8 = 13;
/// Model tag of `Progress<ValueOf<T>>` for tracked type tag `t` (probe types and `TAG_IT`).
pub const fn tag_progress(t: u8) -> u8 {
    16 + t
}
/// Model tag of the (private, unobservable) change-of memory for lens `ValueOf<T>`.
/// presence of a `LogConfig` in a scope (value 1)
pub const TAG_LOGCFG: u8 = 14;

pub const fn tag_prev(t: u8) -> u8 {
    32 + t
}
pub const NONE: u64 = u64::MAX;
use serde::{Deserialize, Serialize};
use std::collections::BTreeMap;

pub type St = State<'static, EP>;

#[derive(Clone, Debug, PartialEq, Serialize, Deserialize)]
pub enum OccAction {
    Get,
    GetMut,
    Insert,
    Remove,
    IntoMut,
}

/// `Option<f64>` in replay files: JSON has no infinities, they are written as strings.
mod opt_float {
    use serde::{Deserialize, Deserializer, Serialize, Serializer};
    #[derive(Serialize, Deserialize)]
    #[serde(untagged)]
    enum F {
        N(f64),
        S(String),
    }
    pub fn serialize<S: Serializer>(v: &Option<f64>, s: S) -> Result<S::Ok, S::Error> {
        v.map(|x| if x.is_finite() { F::N(x) } else { F::S(format!("{x}")) }).serialize(s)
    }
    pub fn deserialize<'de, D: Deserializer<'de>>(d: D) -> Result<Option<f64>, D::Error> {
        match Option::<F>::deserialize(d)? {
            None => Ok(None),
            Some(F::N(x)) => Ok(Some(x)),
            Some(F::S(t)) => t.parse::<f64>().map(Some).map_err(serde::de::Error::custom),
        }
    }
}

#[derive(Clone, Debug, PartialEq, Serialize, Deserialize)]
pub enum Op {
    Insert(u8, u32),
    Remove(u8),
    /// panicking `take`
    Take(u8),
    Contains(u8),
    ContainsTop(u8),
    Find(u8),
    TryGet(u8),
    /// panicking `get_value`
    Get(u8),
    Set(u8, u32),
    GetMut(u8, u32),
    TryBorrow(u8),
    TryBorrowMut(u8, u32),
    TryBorrowValue(u8),
    TryBorrowValueMut(u8, u32),
    /// panicking `borrow`
    Borrow(u8),
    /// panicking `borrow_mut`
    BorrowMut(u8, u32),
    /// panicking `borrow_value_mut`
    BorrowValueMut(u8, u32),
    /// `entry().and_modify(|x| x = a).or_insert(b)`
    EntryAndModifyOrInsert(u8, u32, u32),
    /// `entry().and_modify_value(|x| x = a).or_default()`
    EntryModifyValueOrDefault(u8, u32),
    /// `entry().or_insert_with(|| a)`
    EntryOrInsertWith(u8, u32),
    /// `match entry() { Occupied(e) => action(e, v), Vacant(e) => e.insert(v) }`
    EntryMatch(u8, OccAction, u32),
    /// `into_child` (direct histories only)
    Push,
    /// `into_parent` (direct histories only)
    Pop,
    /// `with_inner_state(|s| { ops; if fail {Err} else {Ok} })`
    WithInner { ops: Vec<Op>, fail: bool },
    /// `holding::<T>(|t, s| { write?; ops; if fail {Err} else {Ok} })`
    Holding {
        t: u8,
        write: Option<u32>,
        ops: Vec<Op>,
        fail: bool,
    },
    /// `requirements().require::<_, T>()`
    Require(u8),
    /// set (or create in the top scope) the best-individual memory
    SetBest(#[serde(with = "opt_float")] Option<f64>),
    /// a fresh best-individual memory in the *current* scope (what a nested heuristic's
    /// initialisation does), holding nothing or the given value
    SetBestHere(#[serde(with = "opt_float")] Option<f64>),
    /// `configure_log(|_| if fail { Err } else { Ok })`: creates a default `LogConfig` in the
    /// current scope only if none is visible; a failing closure changes nothing else
    ConfigureLog { fail: bool },
    /// `set_value::<T>(v)` while a shared (`excl = false`) or exclusive guard on the innermost
    /// `T` is alive: must be refused (`None`) and must not touch any other scope
    SetWhileBorrowed(u8, bool, u32),
    /// `try_get_value::<T>()` while an exclusive guard on the innermost `T` is alive
    GetWhileBorrowedMut(u8),
    /// presence asked while an exclusive guard on the innermost `T` is alive: `contains` (0),
    /// `requirements().require` (1), `contains_at_top` (2), `find` (3) - a borrow does not make
    /// a state absent
    PresentWhileBorrowedMut(u8, u8),
    /// set (or create in the top scope) the float-valued state `F0`; the value is given as bits
    /// (NaN and infinities survive the replay file)
    SetFloat(u64),
    /// the caller's population stack holds one population with one evaluated individual of this
    /// value (or is empty): conditions about the *recorded* best do not look at it
    SetPopulation(#[serde(with = "opt_float")] Option<f64>),
    /// `best_objective_value()` / `best_individual()` while a shared guard on the best-individual
    /// memory is alive: readers next to readers are never refused
    BestWhileShared,
    /// `try_get_multiple_mut::<(Ta, Tb[, Tc])>()` for entry `entry` of the tuple catalogue, then
    /// `vals` written through the references: every element resolves on its own to the
    /// innermost scope holding its type
    MultiWrite { entry: u16, vals: Vec<u32> },
}

#[derive(Clone, Debug, PartialEq, Serialize, Deserialize)]
pub enum Ret {
    Unit,
    Bool(bool),
    Opt(Option<u64>),
    Val(u64),
    NotFound,
    RequiredMissing,
    Depth(Option<usize>),
    Panicked,
    Popped(BTreeMap<u8, u64>),
    NoParent,
    Conflict,
    Inner {
        rets: Vec<Ret>,
        child: Option<BTreeMap<u8, u64>>,
    },
    Held {
        rets: Vec<Ret>,
        seen: u64,
        ok: bool,
    },
    /// values the references of a multi-borrow pointed at
    Multi(Vec<u64>),
    /// anything the model cannot produce (wrong error kind etc.)
    Unexpected(String),
}

/// Stack of typed maps. `scopes[0]` is the outermost scope.
#[derive(Clone, Debug, PartialEq, Serialize, Deserialize)]
pub struct Model {
    pub scopes: Vec<BTreeMap<u8, u64>>,
    /// (scope, type) pairs currently taken out by `holding`
    #[serde(skip)]
    pub holding_active: Vec<(usize, u8)>,
    /// a `holding::<T>` was started for a `T` that the closure of an enclosing `holding::<T>`
    /// re-created in the very scope the enclosing call took its `T` from (known finding, see
    /// known_findings.json; generators stay clear of it, one directed scenario reports it)
    #[serde(skip)]
    pub reentrant_hit: bool,
}

impl Default for Model {
    fn default() -> Self {
        Model::from_scopes(vec![BTreeMap::new()])
    }
}

impl Model {
    pub fn from_scopes(scopes: Vec<BTreeMap<u8, u64>>) -> Self {
        Model { scopes, holding_active: Vec::new(), reentrant_hit: false }
    }
    pub fn find(&self, t: u8) -> Option<usize> {
        (0..self.scopes.len()).rev().find(|&i| self.scopes[i].contains_key(&t))
    }
    pub fn get(&self, t: u8) -> Option<u64> {
        self.find(t).map(|i| self.scopes[i][&t])
    }
    pub fn top(&mut self) -> &mut BTreeMap<u8, u64> {
        self.scopes.last_mut().unwrap()
    }
    pub fn depth(&self) -> usize {
        self.scopes.len() - 1
    }
    pub fn set(&mut self, t: u8, v: u64) -> Option<u64> {
        let i = self.find(t)?;
        self.scopes[i].insert(t, v)
    }

    pub fn apply(&mut self, op: &Op) -> Ret {
        match op {
            Op::Insert(t, v) => Ret::Opt(self.top().insert(*t, *v as u64)),
            Op::Remove(t) => match self.find(*t) {
                Some(i) => Ret::Val(self.scopes[i].remove(t).unwrap()),
                None => Ret::NotFound,
            },
            Op::Take(t) => match self.find(*t) {
                Some(i) => Ret::Val(self.scopes[i].remove(t).unwrap()),
                None => Ret::Panicked,
            },
            Op::Contains(t) => Ret::Bool(self.find(*t).is_some()),
            Op::ContainsTop(t) => Ret::Bool(self.scopes.last().unwrap().contains_key(t)),
            Op::Find(t) => Ret::Depth(self.find(*t)),
            Op::TryGet(t) | Op::TryBorrow(t) | Op::TryBorrowValue(t) => match self.get(*t) {
                Some(v) => Ret::Val(v),
                None => Ret::NotFound,
            },
            Op::Get(t) | Op::Borrow(t) => match self.get(*t) {
                Some(v) => Ret::Val(v),
                None => Ret::Panicked,
            },
            Op::Set(t, v) | Op::GetMut(t, v) => Ret::Opt(self.set(*t, *v as u64)),
            Op::TryBorrowMut(t, v) | Op::TryBorrowValueMut(t, v) => match self.set(*t, *v as u64) {
                Some(old) => Ret::Val(old),
                None => Ret::NotFound,
            },
            Op::BorrowMut(t, v) | Op::BorrowValueMut(t, v) => match self.set(*t, *v as u64) {
                Some(old) => Ret::Val(old),
                None => Ret::Panicked,
            },
            Op::EntryAndModifyOrInsert(t, a, b) => match self.find(*t) {
                Some(i) => {
                    self.scopes[i].insert(*t, *a as u64);
                    Ret::Val(*a as u64)
                }
                None => {
                    self.top().insert(*t, *b as u64);
                    Ret::Val(*b as u64)
                }
            },
            Op::EntryModifyValueOrDefault(t, a) => match self.find(*t) {
                Some(i) => {
                    self.scopes[i].insert(*t, *a as u64);
                    Ret::Val(*a as u64)
                }
                None => {
                    self.top().insert(*t, 0);
                    Ret::Val(0)
                }
            },
            Op::EntryOrInsertWith(t, a) => match self.get(*t) {
                Some(v) => Ret::Val(v),
                None => {
                    self.top().insert(*t, *a as u64);
                    Ret::Val(*a as u64)
                }
            },
            Op::EntryMatch(t, action, v) => match self.find(*t) {
                Some(i) => {
                    let old = self.scopes[i][t];
                    match action {
                        OccAction::Get => Ret::Val(old),
                        OccAction::GetMut | OccAction::IntoMut | OccAction::Insert => {
                            self.scopes[i].insert(*t, *v as u64);
                            Ret::Val(old)
                        }
                        OccAction::Remove => {
                            self.scopes[i].remove(t);
                            Ret::Val(old)
                        }
                    }
                }
                None => {
                    self.top().insert(*t, *v as u64);
                    Ret::Opt(None)
                }
            },
            Op::Push => {
                self.scopes.push(BTreeMap::new());
                Ret::Unit
            }
            Op::Pop => {
                if self.scopes.len() == 1 {
                    // the root has no parent: `into_parent` hands back (None, root content)
                    Ret::NoParent
                } else {
                    Ret::Popped(self.scopes.pop().unwrap())
                }
            }
            Op::WithInner { ops, fail } => {
                self.scopes.push(BTreeMap::new());
                let rets = ops.iter().map(|o| self.apply(o)).collect();
                let child = self.scopes.pop().unwrap();
                Ret::Inner {
                    rets,
                    child: if *fail { None } else { Some(child) },
                }
            }
            Op::Holding { t, write, ops, fail } => match self.find(*t) {
                None => Ret::NotFound,
                Some(i) => {
                    if self.holding_active.contains(&(i, *t)) {
                        self.reentrant_hit = true;
                    }
                    let mut held = self.scopes[i].remove(t).unwrap();
                    if let Some(w) = write {
                        held = *w as u64;
                    }
                    self.holding_active.push((i, *t));
                    let rets = ops.iter().map(|o| self.apply(o)).collect();
                    self.holding_active.pop();
                    // put back into the scope it came from, displacing whatever the closure
                    // inserted there under the same type
                    self.scopes[i].insert(*t, held);
                    Ret::Held {
                        rets,
                        seen: held,
                        ok: !*fail,
                    }
                }
            },
            Op::Require(t) => {
                if self.find(*t).is_some() {
                    Ret::Unit
                } else {
                    Ret::RequiredMissing
                }
            }
            Op::SetBest(v) => {
                let bits = v.map(|x| x.to_bits()).unwrap_or(NONE);
                if self.set(TAG_BEST, bits).is_none() {
                    self.top().insert(TAG_BEST, bits);
                }
                Ret::Unit
            }
            Op::ConfigureLog { fail } => {
                if self.find(TAG_LOGCFG).is_none() {
                    self.top().insert(TAG_LOGCFG, 1);
                }
                Ret::Bool(!*fail)
            }
            Op::SetBestHere(v) => {
                let bits = v.map(|x| x.to_bits()).unwrap_or(NONE);
                self.top().insert(TAG_BEST, bits);
                Ret::Unit
            }
            // a guard on the innermost T is alive: the request is refused, nothing changes
            Op::SetWhileBorrowed(t, _, _) => Ret::Opt(None).min_found(self.find(*t).is_some()),
            Op::GetWhileBorrowedMut(t) => {
                if self.find(*t).is_some() {
                    Ret::Conflict
                } else {
                    Ret::NotFound
                }
            }
            Op::SetPopulation(_) => Ret::Unit,
            Op::SetFloat(bits) => {
                if self.set(TAG_F0, *bits).is_none() {
                    self.top().insert(TAG_F0, *bits);
                }
                Ret::Unit
            }
            Op::BestWhileShared => match self.get(TAG_BEST) {
                Some(bits) if bits != NONE => Ret::Opt(Some(bits)),
                _ => Ret::Opt(None),
            },
            Op::PresentWhileBorrowedMut(t, which) => match which {
                1 => {
                    if self.find(*t).is_some() {
                        Ret::Unit
                    } else {
                        Ret::RequiredMissing
                    }
                }
                2 => Ret::Bool(self.scopes.last().map(|m| m.contains_key(t)).unwrap_or(false)),
                _ => Ret::Bool(self.find(*t).is_some()),
            },
            Op::MultiWrite { entry, vals } => {
                let tuple = multi_entry(*entry).0;
                let mut sorted = tuple.to_vec();
                sorted.sort();
                sorted.dedup();
                if sorted.len() != tuple.len() {
                    Ret::Conflict
                } else if tuple.iter().any(|t| self.find(*t).is_none()) {
                    Ret::NotFound
                } else {
                    let old = tuple.iter().zip(vals).map(|(t, v)| self.set(*t, *v as u64).expect("present")).collect();
                    Ret::Multi(old)
                }
            }
        }
    }
}

/// Entry of the (generated) multi-borrow tuple catalogue.
pub fn multi_entry(i: u16) -> super::multi_catalogue::Entry {
    static CAT: std::sync::OnceLock<Vec<super::multi_catalogue::Entry>> = std::sync::OnceLock::new();
    let cat = CAT.get_or_init(super::multi_catalogue::catalogue);
    cat[i as usize % cat.len()]
}

impl Ret {
    fn min_found(self, _found: bool) -> Ret {
        // `set_value` answers `None` both for an absent state and for a refused borrow
        self
    }
}

fn state_err(e: &StateError, expect_not_found: bool) -> Ret {
    match e {
        StateError::NotFound(_) if expect_not_found => Ret::NotFound,
        StateError::RequiredMissing(..) => Ret::RequiredMissing,
        other => Ret::Unexpected(format!("{other}")),
    }
}

/// Content of the top map of `reg` over the tracked types (probe types and `Iterations`).
pub fn dump_top(reg: &StateRegistry<'static>) -> BTreeMap<u8, u64> {
    let mut m = BTreeMap::new();
    for t in 0..NPROBE {
        with_ty!(t, T => {
            if reg.contains_at_top::<T>() {
                // resolves at this level, because this level holds T
                match reg.try_get_value::<T>() {
                    Ok(v) => { m.insert(t, v as u64); }
                    Err(_) => { m.insert(t, NONE); }
                }
            }
        });
    }
    if reg.contains_at_top::<Iterations>() {
        if let Ok(v) = reg.try_get_value::<Iterations>() {
            m.insert(TAG_IT, v as u64);
        }
    }
    if reg.contains_at_top::<mahf::logging::LogConfig<EP>>() {
        m.insert(TAG_LOGCFG, 1);
    }
    if reg.contains_at_top::<BestIndividual<EP>>() {
        if let Ok(b) = reg.try_borrow::<BestIndividual<EP>>() {
            m.insert(TAG_BEST, b.as_ref().map(|i| i.objective().value().to_bits()).unwrap_or(NONE));
        }
    }
    for t in 0..NT {
        with_ty!(t, T => {
            if reg.contains_at_top::<Progress<ValueOf<T>>>() {
                if let Ok(v) = reg.try_get_value::<Progress<ValueOf<T>>>() {
                    m.insert(tag_progress(t), v.to_bits());
                }
            }
        });
    }
    if reg.contains_at_top::<F0>() {
        if let Ok(v) = reg.try_get_value::<F0>() {
            m.insert(TAG_F0, v.to_bits());
        }
    }
    if reg.contains_at_top::<Progress<ValueOf<F0>>>() {
        if let Ok(v) = reg.try_get_value::<Progress<ValueOf<F0>>>() {
            m.insert(tag_progress(TAG_F0), v.to_bits());
        }
    }
    if reg.contains_at_top::<Progress<ValueOf<Iterations>>>() {
        if let Ok(v) = reg.try_get_value::<Progress<ValueOf<Iterations>>>() {
            m.insert(tag_progress(TAG_IT), v.to_bits());
        }
    }
    m
}

/// Full scope stack of the real registry, outermost first.
pub fn snapshot(st: &StateRegistry<'static>) -> Vec<BTreeMap<u8, u64>> {
    let mut levels = Vec::new();
    let mut cur = Some(st);
    while let Some(r) = cur {
        levels.push(dump_top(r));
        cur = r.parent();
    }
    levels.reverse();
    levels
}

fn depth_of(st: &StateRegistry<'static>, target: &StateRegistry<'static>) -> Option<usize> {
    // depth counted from the root: number of ancestors of `target`
    let mut chain = Vec::new();
    let mut cur = Some(st);
    while let Some(r) = cur {
        chain.push(r as *const StateRegistry<'static>);
        cur = r.parent();
    }
    let n = chain.len();
    chain
        .iter()
        .position(|p| std::ptr::eq(*p, target))
        .map(|pos| n - 1 - pos)
}

pub fn apply_real(op: &Op, st: &mut St) -> Ret {
    let val = |v: u32| Ret::Val(v as u64);
    match op {
        // a pass counter the caller (or an earlier run) left in the state
        Op::Insert(t, v) if *t == TAG_IT => Ret::Opt(st.insert(mahf::state::common::Iterations(*v)).map(|o| o.0 as u64)),
        Op::Insert(t, v) => with_ty!(*t, T => Ret::Opt(st.insert(<T as Probe>::mk(*v)).map(|o| o.val() as u64))),
        Op::Remove(t) => with_ty!(*t, T => match st.remove::<T>() {
            Ok(x) => val(x.val()),
            Err(e) => state_err(&e, true),
        }),
        Op::Take(t) => with_ty!(*t, T => match guarded(|| st.take::<T>()) {
            Ok(x) => val(x.val()),
            Err(_) => Ret::Panicked,
        }),
        Op::Contains(t) => with_ty!(*t, T => Ret::Bool(st.contains::<T>())),
        Op::ContainsTop(t) => with_ty!(*t, T => Ret::Bool(st.contains_at_top::<T>())),
        Op::Find(t) => with_ty!(*t, T => {
            let reg: &StateRegistry<'static> = &**st;
            match reg.find::<T>() {
                Ok(r) => Ret::Depth(depth_of(reg, r)),
                Err(e) => match state_err(&e, true) { Ret::NotFound => Ret::Depth(None), other => other },
            }
        }),
        Op::TryGet(t) => with_ty!(*t, T => match st.try_get_value::<T>() {
            Ok(v) => val(v),
            Err(e) => state_err(&e, true),
        }),
        Op::Get(t) => with_ty!(*t, T => match guarded(|| st.get_value::<T>()) {
            Ok(v) => val(v),
            Err(_) => Ret::Panicked,
        }),
        Op::Set(t, v) => with_ty!(*t, T => Ret::Opt(st.set_value::<T>(*v).map(|o| o as u64))),
        Op::GetMut(t, v) => with_ty!(*t, T => match st.get_mut::<T>() {
            Some(x) => Ret::Opt(Some(x.put(*v) as u64)),
            None => Ret::Opt(None),
        }),
        Op::TryBorrow(t) => with_ty!(*t, T => match st.try_borrow::<T>() {
            Ok(r) => val(r.val()),
            Err(e) => state_err(&e, true),
        }),
        Op::TryBorrowMut(t, v) => with_ty!(*t, T => match st.try_borrow_mut::<T>() {
            Ok(mut r) => val(r.put(*v)),
            Err(e) => state_err(&e, true),
        }),
        Op::TryBorrowValue(t) => with_ty!(*t, T => match st.try_borrow_value::<T>() {
            Ok(r) => val(*r),
            Err(e) => state_err(&e, true),
        }),
        Op::TryBorrowValueMut(t, v) => with_ty!(*t, T => match st.try_borrow_value_mut::<T>() {
            Ok(mut r) => { let old = *r; *r = *v; val(old) }
            Err(e) => state_err(&e, true),
        }),
        Op::Borrow(t) => with_ty!(*t, T => match guarded(|| st.borrow::<T>().val()) {
            Ok(v) => val(v),
            Err(_) => Ret::Panicked,
        }),
        Op::BorrowMut(t, v) => with_ty!(*t, T => match guarded(|| st.borrow_mut::<T>().put(*v)) {
            Ok(v) => val(v),
            Err(_) => Ret::Panicked,
        }),
        Op::BorrowValueMut(t, v) => with_ty!(*t, T => match guarded(|| { let mut r = st.borrow_value_mut::<T>(); let old = *r; *r = *v; old }) {
            Ok(v) => val(v),
            Err(_) => Ret::Panicked,
        }),
        Op::EntryAndModifyOrInsert(t, a, b) => with_ty!(*t, T => {
            let r = st.entry::<T>().and_modify(|mut x| { x.put(*a); }).or_insert(<T as Probe>::mk(*b));
            val(r.val())
        }),
        Op::EntryModifyValueOrDefault(t, a) => with_ty!(*t, T => {
            let r = st.entry::<T>().and_modify_value(|x| *x = *a).or_default();
            val(r.val())
        }),
        Op::EntryOrInsertWith(t, a) => with_ty!(*t, T => {
            let r = st.entry::<T>().or_insert_with(|| <T as Probe>::mk(*a));
            val(r.val())
        }),
        Op::EntryMatch(t, action, v) => with_ty!(*t, T => match st.entry::<T>() {
            Entry::Occupied(mut e) => match action {
                OccAction::Get => val(e.get().val()),
                OccAction::GetMut => val(e.get_mut().put(*v)),
                OccAction::Insert => val(e.insert(<T as Probe>::mk(*v)).val()),
                OccAction::Remove => val(e.remove().val()),
                OccAction::IntoMut => val(e.into_mut().put(*v)),
            },
            Entry::Vacant(e) => { let r = e.insert(<T as Probe>::mk(*v)); let _ = r.val(); Ret::Opt(None) }
        }),
        Op::Push => {
            let reg = StateRegistry::from(std::mem::take(st));
            *st = State::from(reg.into_child());
            Ret::Unit
        }
        Op::Pop => {
            let reg = StateRegistry::from(std::mem::take(st));
            let (parent, child) = reg.into_parent();
            match parent {
                Some(p) => {
                    *st = State::from(p);
                    Ret::Popped(dump_top(&child))
                }
                None => {
                    // popping the root hands its content back as the "child"; keep it
                    *st = State::from(child);
                    Ret::NoParent
                }
            }
        }
        Op::WithInner { ops, fail } => {
            let mut rets = Vec::new();
            let fail = *fail;
            let r = st.with_inner_state(|s| {
                for o in ops {
                    rets.push(apply_real(o, s));
                }
                if fail {
                    Err(eyre::eyre!("injected closure failure"))
                } else {
                    Ok(())
                }
            });
            match r {
                Ok(child) => {
                    let child: StateRegistry<'static> = child.into();
                    Ret::Inner { rets, child: Some(dump_top(&child)) }
                }
                Err(_) => Ret::Inner { rets, child: None },
            }
        }
        Op::Holding { t, write, ops, fail } => with_ty!(*t, T => {
            let mut rets = Vec::new();
            let mut seen = 0u64;
            let mut entered = false;
            let fail = *fail;
            let r = st.holding::<T>(|held, s| {
                entered = true;
                if let Some(w) = write {
                    held.put(*w);
                }
                for o in ops {
                    rets.push(apply_real(o, s));
                }
                seen = held.val() as u64;
                if fail {
                    Err(eyre::eyre!("injected closure failure"))
                } else {
                    Ok(())
                }
            });
            if !entered {
                match r {
                    Err(e) => match e.downcast_ref::<StateError>() {
                        Some(se) => state_err(se, true),
                        None => Ret::Unexpected(format!("{e}")),
                    },
                    Ok(()) => Ret::Unexpected("holding returned Ok without running the closure".into()),
                }
            } else {
                Ret::Held { rets, seen, ok: r.is_ok() }
            }
        }),
        Op::Require(t) => with_ty!(*t, T => match st.requirements().require::<EP, T>() {
            Ok(()) => Ret::Unit,
            Err(e) => state_err(&e, false),
        }),
        Op::SetBest(v) => {
            let ind = v.map(|x| Individual::<EP>::new(Vec::new(), SingleObjective::try_from(x).expect("harness: valid objective")));
            if !st.contains::<BestIndividual<EP>>() {
                st.insert(BestIndividual::<EP>::new());
            }
            **st.borrow_mut::<BestIndividual<EP>>() = ind;
            Ret::Unit
        }
        Op::ConfigureLog { fail } => {
            let fail = *fail;
            let r = st.configure_log(|_config| if fail { Err(eyre::eyre!("injected: log configuration failed")) } else { Ok(()) });
            Ret::Bool(r.is_ok())
        }
        Op::SetBestHere(v) => {
            let ind = v.map(|x| Individual::<EP>::new(Vec::new(), SingleObjective::try_from(x).expect("harness: valid objective")));
            st.insert(BestIndividual::<EP>::new());
            **st.borrow_mut::<BestIndividual<EP>>() = ind;
            Ret::Unit
        }
        Op::SetWhileBorrowed(t, excl, v) => with_ty!(*t, T => {
            // `set_value` is a quiet setter: a panic is an answer the model never gives
            let set = |st: &St| match guarded(|| st.set_value::<T>(*v)) {
                Ok(o) => Ret::Opt(o.map(|o| o as u64)),
                Err(_) => Ret::Panicked,
            };
            if *excl {
                match st.try_borrow_mut::<T>() {
                    Ok(_guard) => set(st),
                    Err(_) => set(st),
                }
            } else {
                match st.try_borrow::<T>() {
                    Ok(_guard) => set(st),
                    Err(_) => set(st),
                }
            }
        }),
        Op::SetFloat(bits) => {
            if st.contains::<F0>() {
                st.set_value::<F0>(f64::from_bits(*bits));
            } else {
                st.insert(F0(f64::from_bits(*bits)));
            }
            Ret::Unit
        }
        Op::SetPopulation(v) => {
            let mut pops = mahf::state::common::Populations::<EP>::new();
            if let Some(x) = v {
                pops.push(vec![Individual::<EP>::new(Vec::new(), SingleObjective::try_from(*x).expect("harness: valid objective"))]);
            }
            st.insert(pops);
            Ret::Unit
        }
        Op::BestWhileShared => {
            let ask = |st: &St| match guarded(|| {
                let via_value = st.best_objective_value().map(|o| o.value().to_bits());
                let via_individual = st.best_individual().map(|i| i.objective().value().to_bits());
                (via_value, via_individual)
            }) {
                Ok((a, b)) if a == b => Ret::Opt(a),
                Ok((a, b)) => Ret::Unexpected(format!("best_objective_value() = {a:?} but best_individual() = {b:?}")),
                Err(_) => Ret::Panicked,
            };
            match st.try_borrow::<BestIndividual<EP>>() {
                Ok(_guard) => ask(st),
                Err(_) => ask(st),
            }
        }
        Op::PresentWhileBorrowedMut(t, which) => with_ty!(*t, T => {
            let ask = |st: &St| match guarded(|| match *which {
                1 => match st.requirements().require::<EP, T>() {
                    Ok(()) => Ret::Unit,
                    Err(e) => state_err(&e, false),
                },
                2 => Ret::Bool(st.contains_at_top::<T>()),
                3 => Ret::Bool(st.find::<T>().is_ok()),
                _ => Ret::Bool(st.contains::<T>()),
            }) {
                Ok(r) => r,
                Err(_) => Ret::Panicked,
            };
            match st.try_borrow_mut::<T>() {
                Ok(_guard) => ask(st),
                Err(_) => ask(st),
            }
        }),
        Op::MultiWrite { entry, vals } => match (multi_entry(*entry).1)(st, vals) {
            super::multi::MultiOutcome::Repeat => Ret::Conflict,
            super::multi::MultiOutcome::Missing => Ret::NotFound,
            super::multi::MultiOutcome::Refs { old, .. } => Ret::Multi(old.into_iter().map(|v| v as u64).collect()),
            super::multi::MultiOutcome::Other(e) => Ret::Unexpected(e),
        },
        Op::GetWhileBorrowedMut(t) => with_ty!(*t, T => {
            match st.try_borrow_mut::<T>() {
                Ok(_guard) => match st.try_get_value::<T>() {
                    Ok(v) => val(v),
                    Err(StateError::BorrowConflictImm(..)) => Ret::Conflict,
                    Err(e) => state_err(&e, true),
                },
                Err(e) => state_err(&e, true),
            }
        }),
    }
}

// ---------------------------------------------------------------------------------------------
// generation

pub struct OpGen<'a> {
    pub g: &'a mut crate::rng::Gen,
    pub next_val: u32,
    pub ntypes: u8,
}

impl<'a> OpGen<'a> {
    pub fn val(&mut self) -> u32 {
        self.next_val += 1;
        self.next_val
    }
    pub fn ty(&mut self) -> u8 {
        self.g.below(self.ntypes as usize) as u8
    }
    /// One operation. `scope_ops`: allow unbalanced `Push`/`Pop`. `depth`: nesting budget for
    /// closures. `panicking`: allow the panicking accessors.
    pub fn op(&mut self, scope_ops: bool, depth: u32, panicking: bool) -> Op {
        loop {
            let k = self.g.below(100);
            let t = self.ty();
            return match k {
                0..=13 => Op::Insert(t, self.val()),
                14..=20 => Op::Remove(t),
                21..=22 if panicking => Op::Take(t),
                23..=26 => Op::Contains(t),
                27..=29 => Op::ContainsTop(t),
                30..=33 => Op::Find(t),
                34..=38 => Op::TryGet(t),
                39 if panicking => Op::Get(t),
                40..=44 => Op::Set(t, self.val()),
                45..=48 => Op::GetMut(t, self.val()),
                49..=50 => Op::TryBorrow(t),
                51..=53 => Op::TryBorrowMut(t, self.val()),
                54 => Op::TryBorrowValue(t),
                55..=56 => Op::TryBorrowValueMut(t, self.val()),
                57 if panicking => Op::Borrow(t),
                58 if panicking => Op::BorrowMut(t, self.val()),
                59 if panicking => Op::BorrowValueMut(t, self.val()),
                60..=63 => Op::EntryAndModifyOrInsert(t, self.val(), self.val()),
                64..=66 => Op::EntryModifyValueOrDefault(t, self.val()),
                67..=69 => Op::EntryOrInsertWith(t, self.val()),
                70..=79 => {
                    let a = match self.g.below(5) {
                        0 => OccAction::Get,
                        1 => OccAction::GetMut,
                        2 => OccAction::Insert,
                        3 => OccAction::Remove,
                        _ => OccAction::IntoMut,
                    };
                    Op::EntryMatch(t, a, self.val())
                }
                80..=85 if scope_ops => Op::Push,
                86..=90 if scope_ops => Op::Pop,
                91..=94 if depth > 0 => {
                    let n = self.g.below(5);
                    let ops = (0..n).map(|_| self.op(false, depth - 1, panicking)).collect();
                    Op::WithInner { ops, fail: self.g.chance(0.4) }
                }
                95..=97 if depth > 0 => {
                    let n = self.g.below(5);
                    let ops = (0..n).map(|_| self.op(false, depth - 1, panicking)).collect();
                    let write = if self.g.chance(0.6) { Some(self.val()) } else { None };
                    Op::Holding { t, write, ops, fail: self.g.chance(0.4) }
                }
                98 if self.g.chance(0.5) => Op::ConfigureLog { fail: self.g.chance(0.5) },
                98 => Op::Require(t),
                99 if self.g.chance(0.5) => {
                    // the 2- and 3-tuples over the first four probe types
                    let entry = self.g.below(80) as u16;
                    let n = multi_entry(entry).0.len();
                    let vals = (0..n).map(|_| self.val()).collect();
                    Op::MultiWrite { entry, vals }
                }
                99 => match self.g.below(4) {
                    0 => Op::SetWhileBorrowed(t, self.g.chance(0.5), self.val()),
                    1 => Op::GetWhileBorrowedMut(t),
                    2 => Op::BestWhileShared,
                    _ => Op::PresentWhileBorrowedMut(t, self.g.below(4) as u8),
                },
                _ => continue,
            };
        }
    }
}

/// Shrinking helper: all variants of `ops` with one element removed, or one nested closure
/// simplified.
pub fn shrink_ops(ops: &[Op]) -> Vec<Vec<Op>> {
    let mut out = Vec::new();
    // halves first
    if ops.len() > 3 {
        out.push(ops[..ops.len() / 2].to_vec());
        out.push(ops[ops.len() / 2..].to_vec());
    }
    for i in 0..ops.len() {
        let mut v = ops.to_vec();
        v.remove(i);
        out.push(v);
    }
    for i in 0..ops.len() {
        match &ops[i] {
            Op::WithInner { ops: inner, fail } => {
                for s in shrink_ops(inner) {
                    let mut v = ops.to_vec();
                    v[i] = Op::WithInner { ops: s, fail: *fail };
                    out.push(v);
                }
                if *fail {
                    let mut v = ops.to_vec();
                    v[i] = Op::WithInner { ops: inner.clone(), fail: false };
                    out.push(v);
                }
            }
            Op::Holding { t, write, ops: inner, fail } => {
                for s in shrink_ops(inner) {
                    let mut v = ops.to_vec();
                    v[i] = Op::Holding { t: *t, write: *write, ops: s, fail: *fail };
                    out.push(v);
                }
                if *fail {
                    let mut v = ops.to_vec();
                    v[i] = Op::Holding { t: *t, write: *write, ops: inner.clone(), fail: false };
                    out.push(v);
                }
            }
            _ => {}
        }
    }
    out
}
