//! Batch runner: seeded runs distributed over harness threads by run index only, violation
//! capture, minimisation, replay files, known findings, evidence.

use crate::rng;
use serde::{de::DeserializeOwned, Deserialize, Serialize};
use serde_json::{json, Value};
use std::collections::{BTreeMap, BTreeSet, HashSet};
use std::panic::{catch_unwind, AssertUnwindSafe};
use std::sync::atomic::{AtomicU64, Ordering};
use std::sync::Mutex;
use std::time::Instant;

#[derive(Clone, Copy, Debug, PartialEq, Eq, Serialize, Deserialize)]
pub enum Tier {
    Quick,
    Thorough,
}

impl Tier {
    pub fn name(self) -> &'static str {
        match self {
            Tier::Quick => "quick",
            Tier::Thorough => "thorough",
        }
    }
    pub fn pick<T>(self, quick: T, thorough: T) -> T {
        match self {
            Tier::Quick => quick,
            Tier::Thorough => thorough,
        }
    }
}

pub type Counters = BTreeMap<String, u64>;

/// Adds to a counter; keys starting with `max:` keep the maximum instead of the sum.
pub fn bump(c: &mut Counters, k: &str, by: u64) {
    if by > 0 {
        let e = c.entry(k.to_string()).or_insert(0);
        if k.starts_with("max:") {
            *e = (*e).max(by);
        } else {
            *e += by;
        }
    }
}

#[derive(Clone, Debug, Serialize, Deserialize, PartialEq)]
pub struct Violation {
    /// Stable signature of the violation class (used for minimisation and known findings).
    pub class: String,
    pub message: String,
}

impl Violation {
    pub fn new(class: impl Into<String>, message: impl Into<String>) -> Self {
        Violation {
            class: class.into(),
            message: message.into(),
        }
    }
}

/// Result of executing one case.
#[derive(Default)]
pub struct Outcome<C> {
    /// number of executions of the system this case comprised (>= 1)
    pub evaluations: u64,
    /// fingerprints of the distinct non-trivial executions among them
    pub fingerprints: Vec<u64>,
    /// simulated steps (component executions + objective calls + scheduler steps)
    pub steps: u64,
    /// fault kinds fired, probes hit, ...
    pub counters: Counters,
    /// first violation, with the narrowed case that reproduces it on its own
    pub violation: Option<(Violation, C)>,
}

impl<C> Outcome<C> {
    pub fn new() -> Self {
        Outcome {
            evaluations: 0,
            fingerprints: Vec::new(),
            steps: 0,
            counters: Counters::new(),
            violation: None,
        }
    }
}

pub trait World: Sync {
    type Case: Serialize + DeserializeOwned + Clone + Send;
    /// name used in replay files
    fn name(&self) -> &'static str;
    fn generate(&self, run_seed: u64, tier: Tier) -> Self::Case;
    fn execute(&self, case: &Self::Case) -> Outcome<Self::Case>;
    /// Smaller variants of `case`, most aggressive first.
    fn shrink(&self, _case: &Self::Case) -> Vec<Self::Case> {
        Vec::new()
    }
}

// ---------------------------------------------------------------------------------------------
// panics

thread_local! {
    static LAST_PANIC: std::cell::RefCell<Option<String>> = const { std::cell::RefCell::new(None) };
}

pub fn install_panic_hook() {
    let verbose = std::env::var("VERIF_VERBOSE").is_ok();
    let default = std::panic::take_hook();
    std::panic::set_hook(Box::new(move |info| {
        let msg = if let Some(s) = info.payload().downcast_ref::<&str>() {
            s.to_string()
        } else if let Some(s) = info.payload().downcast_ref::<String>() {
            s.clone()
        } else {
            "<non-string panic>".to_string()
        };
        let loc = info
            .location()
            .map(|l| format!("{}:{}", l.file(), l.line()))
            .unwrap_or_default();
        LAST_PANIC.with(|p| *p.borrow_mut() = Some(format!("{msg} @ {loc}")));
        if verbose {
            default(info);
        }
    }));
}

/// Runs `f`, converting a panic into `Err(message @ location)`.
/// A case that never returns (code under test blocking an OS thread inside the simulator, e.g.
/// on a `std::sync` lock held by a parked simulated thread) must not hang the check: it is a
/// harness error (exit 2), never a verdict.
pub mod watchdog {
    use std::sync::atomic::{AtomicU64, AtomicUsize, Ordering};
    use std::time::{SystemTime, UNIX_EPOCH};

    const NSLOTS: usize = 256;
    static SLOTS: [AtomicU64; NSLOTS] = [const { AtomicU64::new(0) }; NSLOTS];
    static NEXT: AtomicUsize = AtomicUsize::new(0);
    thread_local! {
        static SLOT: usize = NEXT.fetch_add(1, Ordering::SeqCst) % NSLOTS;
    }

    fn now() -> u64 {
        SystemTime::now().duration_since(UNIX_EPOCH).map(|d| d.as_secs()).unwrap_or(0)
    }

    /// Seconds one execution of one case may take (VERIF_CASE_TIMEOUT overrides).
    fn limit() -> u64 {
        std::env::var("VERIF_CASE_TIMEOUT").ok().and_then(|s| s.parse().ok()).unwrap_or(600)
    }

    pub fn enter() {
        SLOT.with(|s| SLOTS[*s].store(now().max(1), Ordering::SeqCst));
    }

    pub fn leave() {
        SLOT.with(|s| SLOTS[*s].store(0, Ordering::SeqCst));
    }

    pub fn start() {
        let limit = limit();
        std::thread::spawn(move || loop {
            std::thread::sleep(std::time::Duration::from_secs(2));
            let t = now();
            for s in SLOTS.iter() {
                let t0 = s.load(Ordering::SeqCst);
                if t0 != 0 && t.saturating_sub(t0) > limit {
                    eprintln!("harness error: one case has been executing for more than {limit} s (code under test blocking inside the simulator?); no verdict");
                    std::process::exit(2);
                }
            }
        });
    }
}

pub fn guarded<R>(f: impl FnOnce() -> R) -> Result<R, String> {
    LAST_PANIC.with(|p| *p.borrow_mut() = None);
    match catch_unwind(AssertUnwindSafe(f)) {
        Ok(r) => Ok(r),
        Err(_) => Err(LAST_PANIC
            .with(|p| p.borrow_mut().take())
            .unwrap_or_else(|| "<panic>".to_string())),
    }
}

// ---------------------------------------------------------------------------------------------
// known findings

#[derive(Clone, Debug, Serialize, Deserialize)]
pub struct FindingEntry {
    /// "known" or "fixed"
    pub status: String,
    pub property: String,
    /// for known: the violation class it suppresses
    #[serde(default)]
    pub signature: String,
    #[serde(default)]
    pub commit: String,
    pub what: String,
}

pub struct KnownFindings {
    pub entries: Vec<FindingEntry>,
}

impl KnownFindings {
    pub fn load() -> Self {
        let path = verif_root().join("known_findings.json");
        let entries = match std::fs::read_to_string(&path) {
            Ok(s) => match serde_json::from_str::<Value>(&s) {
                Ok(v) => serde_json::from_value(v["findings"].clone()).unwrap_or_else(|e| {
                    eprintln!("harness error: cannot parse known_findings.json: {e}");
                    std::process::exit(2);
                }),
                Err(e) => {
                    eprintln!("harness error: cannot parse known_findings.json: {e}");
                    std::process::exit(2);
                }
            },
            Err(_) => Vec::new(),
        };
        KnownFindings { entries }
    }
    pub fn is_known(&self, property: &str, class: &str) -> bool {
        self.entries
            .iter()
            .any(|e| e.status == "known" && e.property == property && e.signature == class)
    }
}

pub fn verif_root() -> std::path::PathBuf {
    std::env::var("VERIF_ROOT")
        .map(std::path::PathBuf::from)
        .unwrap_or_else(|_| std::path::PathBuf::from("/verif"))
}

// ---------------------------------------------------------------------------------------------
// batch execution

pub struct BatchConfig<'a> {
    pub check_id: &'a str,
    pub batch: &'a str,
    pub base_seed: u64,
    pub tier: Tier,
    pub runs: u64,
    pub threads: usize,
    pub known: &'a KnownFindings,
    /// how many samples to write out
    pub samples: usize,
}

pub struct BatchStats {
    /// order-independent hash over every run's observations (equal for equal seeds whatever the
    /// number of harness threads)
    pub digest: u64,
    pub batch: String,
    pub world: String,
    pub runs: u64,
    pub evaluations: u64,
    pub distinct_nontrivial: u64,
    pub steps: u64,
    pub counters: Counters,
    pub samples: Vec<Value>,
    pub wall_s: f64,
    pub violation: Option<ReportedViolation>,
    pub known_hit: BTreeMap<String, (u64, String)>,
    /// a violation seen with several harness threads that neither replays in isolation nor
    /// shows when the batch is decided on one thread
    pub unreproducible: Option<String>,
}

pub struct ReportedViolation {
    pub violation: Violation,
    pub replay_path: String,
    pub run_index: u64,
    pub reproduced: bool,
}

#[derive(Serialize, Deserialize)]
pub struct ReplayFile {
    pub property: String,
    pub world: String,
    pub batch: String,
    pub verif_seed: u64,
    pub run_index: u64,
    pub run_seed: u64,
    pub minimised: bool,
    pub shrink_steps: u64,
    pub violation: Violation,
    pub case: Value,
}

struct WorkerAcc {
    digest: u64,
    evaluations: u64,
    steps: u64,
    counters: Counters,
    fps: HashSet<u64>,
}

pub fn run_batch<W: World>(world: &W, cfg: &BatchConfig) -> BatchStats {
    let t0 = Instant::now();
    // debugging aids (never set by registered commands)
    let only = std::env::var("VERIF_ONLY_BATCH").ok();
    let scale: f64 = std::env::var("VERIF_RUNS_SCALE").ok().and_then(|s| s.parse().ok()).unwrap_or(1.0);
    let runs = if only.as_deref().map(|o| o != cfg.batch).unwrap_or(false) { 0 } else { ((cfg.runs as f64 * scale) as u64).max(1) };
    let cfg = &BatchConfig { runs, ..*cfg };
    let next = AtomicU64::new(0);
    let min_viol = AtomicU64::new(u64::MAX);
    let found: Mutex<BTreeMap<u64, (Violation, W::Case)>> = Mutex::new(BTreeMap::new());
    let known_hit: Mutex<BTreeMap<String, (u64, String)>> = Mutex::new(BTreeMap::new());
    let samples: Mutex<BTreeMap<u64, Value>> = Mutex::new(BTreeMap::new());
    let threads = cfg.threads.max(1).min(cfg.runs.max(1) as usize);
    let trace_runs = std::env::var("VERIF_TRACE_RUNS").is_ok();
    let mut accs: Vec<WorkerAcc> = Vec::new();

    std::thread::scope(|s| {
        let mut handles = Vec::new();
        for _ in 0..threads {
            handles.push(s.spawn(|| {
                let mut acc = WorkerAcc {
                    digest: 0,
                    evaluations: 0,
                    steps: 0,
                    counters: Counters::new(),
                    fps: HashSet::new(),
                };
                loop {
                    let i = next.fetch_add(1, Ordering::SeqCst);
                    if i >= cfg.runs || i > min_viol.load(Ordering::SeqCst) {
                        break;
                    }
                    let seed = rng::run_seed(cfg.base_seed, &format!("{}/{}", cfg.check_id, cfg.batch), i);
                    if trace_runs {
                        eprintln!("run {i} seed {seed}: generate");
                    }
                    let case = world.generate(seed, cfg.tier);
                    if trace_runs {
                        eprintln!("run {i}: execute {}", serde_json::to_string(&case).unwrap_or_default());
                    }
                    if (i as usize) < cfg.samples {
                        samples
                            .lock()
                            .unwrap()
                            .insert(i, json!({"run_index": i, "run_seed": seed, "case": serde_json::to_value(&case).unwrap_or(Value::Null)}));
                    }
                    watchdog::enter();
                    let executed = guarded(|| world.execute(&case));
                    watchdog::leave();
                    let out = match executed {
                        Ok(o) => o,
                        Err(p) => {
                            // a panic escaping a world's own guards is a harness error
                            eprintln!("harness error: world {} panicked outside its guards on run {i} (seed {seed}): {p}", world.name());
                            std::process::exit(2);
                        }
                    };
                    // order-independent digest of everything this run observed (determinism self-check)
                    {
                        let mut h = rng::Fp::new();
                        h.u64(i);
                        h.u64(out.evaluations);
                        h.u64(out.steps);
                        let mut fps = out.fingerprints.clone();
                        fps.sort();
                        for f in &fps {
                            h.u64(*f);
                        }
                        for (k, v) in &out.counters {
                            h.str(k);
                            h.u64(*v);
                        }
                        if let Some((v, _)) = &out.violation {
                            h.str(&v.class);
                            h.str(&v.message);
                        }
                        acc.digest = acc.digest.wrapping_add(h.0);
                    }
                    acc.evaluations += out.evaluations;
                    acc.steps += out.steps;
                    for (k, v) in &out.counters {
                        bump(&mut acc.counters, k, *v);
                    }
                    for f in &out.fingerprints {
                        acc.fps.insert(*f);
                    }
                    if let Some((v, narrowed)) = out.violation {
                        if cfg.known.is_known(cfg.check_id, &v.class) {
                            let mut kh = known_hit.lock().unwrap();
                            let e = kh.entry(v.class.clone()).or_insert((0, v.message.clone()));
                            e.0 += 1;
                        } else {
                            found.lock().unwrap().insert(i, (v, narrowed));
                            min_viol.fetch_min(i, Ordering::SeqCst);
                        }
                    }
                }
                acc
            }));
        }
        for h in handles {
            accs.push(h.join().expect("worker thread"));
        }
    });

    let mut evaluations = 0;
    let mut steps = 0;
    let mut digest = 0u64;
    let mut counters = Counters::new();
    let mut fps: HashSet<u64> = HashSet::new();
    for a in accs {
        digest = digest.wrapping_add(a.digest);
        evaluations += a.evaluations;
        steps += a.steps;
        for (k, v) in a.counters {
            bump(&mut counters, &k, v);
        }
        fps.extend(a.fps);
    }
    let found = found.into_inner().unwrap();
    let violation = found.into_iter().next().map(|(i, (v, case))| {
        report_violation(world, cfg, i, v, case)
    });
    if let Some(v) = &violation {
        if !v.reproduced && threads > 1 {
            // The violation does not replay in isolation. Independent cases run on several OS
            // threads of this process; code under test with process-wide state makes them
            // interfere. Decide the batch again on one thread, where every case runs alone.
            eprintln!("note: violation {:?} in batch {} (run {}) did not reproduce from its replay file; re-running the batch on one thread", v.violation.class, cfg.batch, v.run_index);
            let again = run_batch(world, &BatchConfig { threads: 1, ..*cfg });
            let mut again = again;
            if again.violation.is_none() {
                // nothing when every case runs alone: remembered as unreproducible (exit 2 unless
                // another batch decides the property)
                again.unreproducible = Some(format!("{} (run {})", v.violation.class, v.run_index));
            }
            again.wall_s = t0.elapsed().as_secs_f64();
            return again;
        }
    }
    let runs_done = if violation.is_some() {
        next.load(Ordering::SeqCst).min(cfg.runs)
    } else {
        cfg.runs
    };
    BatchStats {
        digest,
        batch: cfg.batch.to_string(),
        world: world.name().to_string(),
        runs: runs_done,
        evaluations,
        distinct_nontrivial: fps.len() as u64,
        steps,
        counters,
        samples: samples.into_inner().unwrap().into_values().collect(),
        wall_s: t0.elapsed().as_secs_f64(),
        violation,
        known_hit: known_hit.into_inner().unwrap(),
        unreproducible: None,
    }
}

/// Violation class without the incidental detail after " in=" (which part of two compared
/// digests differs first). Code under test that is not a function of the seed (e.g. a generator
/// seeded from OS entropy) makes that detail, and the numbers in a message, vary from execution to
/// execution; the violation that must reproduce is the class up to that detail.
pub fn class_key(class: &str) -> &str {
    class.split(" in=").next().unwrap_or(class)
}

fn violates_same<W: World>(world: &W, case: &W::Case, class: &str) -> Option<(Violation, W::Case)> {
    watchdog::enter();
    let r = guarded(|| world.execute(case));
    watchdog::leave();
    match r {
        Ok(out) => match out.violation {
            Some((v, c)) if class_key(&v.class) == class_key(class) => Some((v, c)),
            _ => None,
        },
        Err(_) => None,
    }
}

fn report_violation<W: World>(
    world: &W,
    cfg: &BatchConfig,
    run_index: u64,
    v: Violation,
    case: W::Case,
) -> ReportedViolation {
    // minimise while the same violation class persists
    let mut cur = case;
    let mut cur_v = v;
    let mut steps = 0u64;
    let budget = Instant::now();
    let mut seen: BTreeSet<String> = BTreeSet::new();
    'outer: loop {
        if budget.elapsed().as_secs() > 60 || steps > 5000 {
            break;
        }
        for cand in world.shrink(&cur) {
            let key = serde_json::to_string(&cand).unwrap_or_default();
            if !seen.insert(key) {
                continue;
            }
            steps += 1;
            if let Some((v2, c2)) = violates_same(world, &cand, &cur_v.class) {
                cur = c2;
                cur_v = v2;
                continue 'outer;
            }
            if budget.elapsed().as_secs() > 60 || steps > 5000 {
                break 'outer;
            }
        }
        break;
    }
    let run_seed = rng::run_seed(cfg.base_seed, &format!("{}/{}", cfg.check_id, cfg.batch), run_index);
    let file = ReplayFile {
        property: cfg.check_id.to_string(),
        world: world.name().to_string(),
        batch: cfg.batch.to_string(),
        verif_seed: cfg.base_seed,
        run_index,
        run_seed,
        minimised: steps > 0,
        shrink_steps: steps,
        violation: cur_v.clone(),
        case: serde_json::to_value(&cur).unwrap_or(Value::Null),
    };
    let dir = verif_root().join("replays");
    let _ = std::fs::create_dir_all(&dir);
    let path = dir.join(format!("{}-{}-{}-{}.json", cfg.check_id, cfg.batch, cfg.base_seed, run_index));
    let text = serde_json::to_string_pretty(&file).unwrap();
    if let Err(e) = std::fs::write(&path, &text) {
        eprintln!("harness error: cannot write replay file {}: {e}", path.display());
        std::process::exit(2);
    }
    // replay from the file: it must reproduce exactly
    let reproduced = match replay_text::<W>(world, &text) {
        Ok(Some(v2)) => {
            if v2 != cur_v && class_key(&v2.class) == class_key(&cur_v.class) {
                eprintln!("note: the replay reproduces the violation class but not its details (recorded: {:?}; replayed: {:?}) - the code under test is not a function of the seed here", cur_v.message, v2.message);
            }
            class_key(&v2.class) == class_key(&cur_v.class)
        }
        _ => false,
    };
    ReportedViolation {
        violation: cur_v,
        replay_path: path.display().to_string(),
        run_index,
        reproduced,
    }
}

/// Re-executes the case of a replay file; returns the violation it produces (if any).
pub fn replay_text<W: World>(world: &W, text: &str) -> Result<Option<Violation>, String> {
    let file: ReplayFile = serde_json::from_str(text).map_err(|e| e.to_string())?;
    let case: W::Case = serde_json::from_value(file.case).map_err(|e| e.to_string())?;
    watchdog::enter();
    let out = guarded(|| world.execute(&case));
    watchdog::leave();
    Ok(out?.violation.map(|(v, _)| v))
}

// ---------------------------------------------------------------------------------------------
// evidence

pub struct CheckReport {
    pub property_id: String,
    pub tier: Tier,
    pub seed: u64,
    pub level: &'static str,
    pub rule: String,
    pub assumptions: Vec<String>,
    pub real_components: Vec<String>,
    pub stubbed_components: Vec<String>,
    pub batches: Vec<BatchStats>,
    pub extra: BTreeMap<String, Value>,
}

impl CheckReport {
    pub fn violations(&self) -> usize {
        self.batches.iter().filter(|b| b.violation.is_some()).count()
    }

    /// Writes the evidence file, prints the summary / VIOLATION / KNOWN-FINDING lines and returns
    /// the process exit code.
    pub fn finish(self, wall_s: f64) -> i32 {
        let evaluations: u64 = self.batches.iter().map(|b| b.evaluations).sum();
        let distinct: u64 = self.batches.iter().map(|b| b.distinct_nontrivial).sum();
        let steps: u64 = self.batches.iter().map(|b| b.steps).sum();
        let runs: u64 = self.batches.iter().map(|b| b.runs).sum();
        let mut faults = Counters::new();
        let mut probes = Counters::new();
        let mut other = Counters::new();
        for b in &self.batches {
            for (k, v) in &b.counters {
                if let Some(f) = k.strip_prefix("fault:") {
                    bump(&mut faults, f, *v);
                } else if let Some(p) = k.strip_prefix("probe:") {
                    bump(&mut probes, p, *v);
                } else {
                    bump(&mut other, k, *v);
                }
            }
        }
        let mut samples: Vec<Value> = Vec::new();
        for b in &self.batches {
            for s in b.samples.iter() {
                samples.push(json!({"batch": b.batch, "sample": s}));
            }
        }
        let mut known_lines = Vec::new();
        for b in &self.batches {
            for (class, (n, msg)) in &b.known_hit {
                known_lines.push(json!({"signature": class, "occurrences": n, "example": msg, "batch": b.batch}));
            }
        }
        let batches: Vec<Value> = self
            .batches
            .iter()
            .map(|b| {
                json!({
                    "batch": b.batch, "world": b.world, "runs": b.runs, "evaluations": b.evaluations,
                    "distinct_nontrivial": b.distinct_nontrivial, "simulated_steps": b.steps, "run_digest": format!("{:016x}", b.digest),
                    "wall_s": b.wall_s, "counters": b.counters,
                    "violation": b.violation.as_ref().map(|v| json!({"class": v.violation.class, "message": v.violation.message, "replay": v.replay_path, "run_index": v.run_index, "replay_reproduced": v.reproduced})),
                })
            })
            .collect();
        let zero_probes: Vec<&String> = probes.iter().filter(|(_, v)| **v == 0).map(|(k, _)| k).collect();
        let mut coverage = serde_json::Map::new();
        coverage.insert("evaluations".into(), json!(evaluations));
        coverage.insert("distinct_nontrivial".into(), json!(distinct));
        coverage.insert("rule".into(), json!(self.rule));
        coverage.insert("samples".into(), Value::Array(samples));
        coverage.insert("simulated_runs".into(), json!(runs));
        coverage.insert("simulated_steps".into(), json!(steps));
        coverage.insert("simulated_time".into(), json!("none: mahf has no clock or timers; simulated_steps counts component executions, objective calls and scheduler steps"));
        coverage.insert(
            "runs_per_hour".into(),
            json!(if wall_s > 0.0 { (evaluations as f64 / wall_s * 3600.0) as u64 } else { 0 }),
        );
        coverage.insert("faults_fired".into(), json!(faults));
        coverage.insert("probes".into(), json!(probes));
        coverage.insert("counters".into(), json!(other));
        coverage.insert("batches".into(), Value::Array(batches));
        coverage.insert("real_components".into(), json!(self.real_components));
        coverage.insert("stubbed_components".into(), json!(self.stubbed_components));
        coverage.insert("known_findings_hit".into(), Value::Array(known_lines));
        for (k, v) in &self.extra {
            coverage.insert(k.clone(), v.clone());
        }
        let evidence = json!({
            "property_id": self.property_id,
            "tier": self.tier.name(),
            "seed": self.seed,
            "level": self.level,
            "coverage": Value::Object(coverage),
            "assumptions": self.assumptions,
            "wall_s": wall_s,
            "violations": self.violations(),
        });
        let dir = verif_root().join("evidence");
        let _ = std::fs::create_dir_all(&dir);
        let path = dir.join(format!("{}.json", self.property_id));
        if let Err(e) = std::fs::write(&path, serde_json::to_string_pretty(&evidence).unwrap()) {
            eprintln!("harness error: cannot write evidence {}: {e}", path.display());
            return 2;
        }
        println!(
            "check {} tier={} seed={} runs={} executions={} distinct_nontrivial={} steps={} wall={:.1}s",
            self.property_id,
            self.tier.name(),
            self.seed,
            runs,
            evaluations,
            distinct,
            steps,
            wall_s
        );
        for b in &self.batches {
            println!(
                "  batch {:<18} runs={:<8} exec={:<9} distinct={:<8} {:.1}s",
                b.batch, b.runs, b.evaluations, b.distinct_nontrivial, b.wall_s
            );
        }
        if !faults.is_empty() {
            println!("  faults fired: {}", serde_json::to_string(&faults).unwrap());
        }
        if !probes.is_empty() {
            println!("  probes: {}", serde_json::to_string(&probes).unwrap());
        }
        for p in zero_probes {
            println!("  WARNING: probe {p} never hit");
        }
        for b in &self.batches {
            for (class, (n, msg)) in &b.known_hit {
                println!(
                    "KNOWN-FINDING: property={} {} (x{} in batch {}; e.g. {})",
                    self.property_id, class, n, b.batch, msg
                );
            }
        }
        let mut code = 0;
        let mut undecided: Option<String> = None;
        for b in &self.batches {
            if let Some(v) = &b.violation {
                println!("  violation class: {}", v.violation.class);
                println!("  violation: {}", v.violation.message);
                if !v.reproduced {
                    // a failure that does not replay is never reported as a finding
                    undecided = Some(format!("violation in batch {} did not reproduce from its replay file {}", b.batch, v.replay_path));
                    continue;
                }
                println!("VIOLATION property={} replay={}", self.property_id, v.replay_path);
                code = 1;
            }
            if let Some(u) = &b.unreproducible {
                undecided = Some(format!("batch {}: {u} was observed while independent cases ran on several threads, but neither from its replay file nor with the batch run on one thread (process-wide state in the code under test?)", b.batch));
            }
        }
        if let (0, Some(u)) = (code, &undecided) {
            // nothing reproducible decides the property: harness error, no verdict
            eprintln!("harness error: {u}");
            return 2;
        }
        if distinct < 2 && code == 0 {
            eprintln!("harness error: fewer than 2 distinct non-trivial cases explored");
            return 2;
        }
        code
    }
}

pub fn threads() -> usize {
    std::env::var("VERIF_THREADS")
        .ok()
        .and_then(|s| s.parse().ok())
        .unwrap_or_else(|| std::thread::available_parallelism().map(|n| n.get()).unwrap_or(4))
}
