//! Simulated disk behind mahf's I/O seam (`mahf::verif::io`), scratch directories, and decoding
//! of exported logs.

use mahf::verif::io::IoHook;
use serde_json::Value;
use std::collections::BTreeMap;
use std::fs::File;
use std::io::{self, Write};
use std::path::{Path, PathBuf};
use std::sync::{Arc, Mutex};

#[derive(Clone, Debug, Default, serde::Serialize, serde::Deserialize, PartialEq)]
pub struct IoPlan {
    /// fail the k-th file creation (0-based) on this disk
    pub create_fail_at: Option<u32>,
    /// fail the k-th directory creation
    pub mkdir_fail_at: Option<u32>,
    /// the device is full after this many bytes (counted per file)
    pub error_at: Option<u64>,
    /// restrict `error_at` / `flush_fail` to the k-th created file (None = every file)
    pub only_file: Option<u32>,
    /// every write accepts at most this many bytes (short writes)
    pub short_writes: Option<u32>,
    /// every n-th write call is interrupted (EINTR) before accepting anything
    pub interrupt_every: Option<u32>,
    /// flush reports an error
    pub flush_fail: bool,
}

impl IoPlan {
    pub fn is_failing(&self) -> bool {
        self.create_fail_at.is_some() || self.mkdir_fail_at.is_some() || self.error_at.is_some() || self.flush_fail
    }
}

#[derive(Default)]
pub struct DiskState {
    pub files: BTreeMap<PathBuf, Vec<u8>>,
    pub dirs: Vec<PathBuf>,
    pub creates: u32,
    pub mkdirs: u32,
    pub fired: BTreeMap<&'static str, u64>,
    pub write_calls: u64,
}

#[derive(Clone)]
pub struct SimDisk {
    pub plan: IoPlan,
    pub state: Arc<Mutex<DiskState>>,
    /// called at every simulated I/O call (the par world yields to the scheduler here)
    pub yield_point: Option<fn()>,
}

impl SimDisk {
    pub fn new(plan: IoPlan) -> Self {
        SimDisk { plan, state: Arc::new(Mutex::new(DiskState::default())), yield_point: None }
    }
    fn fire(&self, what: &'static str) {
        *self.state.lock().unwrap().fired.entry(what).or_insert(0) += 1;
    }
    fn yield_now(&self) {
        if let Some(y) = self.yield_point {
            y();
        }
    }
}

struct SimFile {
    disk: SimDisk,
    /// the real file behind the simulated one: accepted bytes are written through, so that file
    /// operations mahf performs without the seam (rename, remove, reading back) see them
    real: File,
    path: PathBuf,
    index: u32,
    written: u64,
    calls: u32,
}

impl SimFile {
    fn targeted(&self) -> bool {
        self.disk.plan.only_file.map(|k| k == self.index).unwrap_or(true)
    }
}

impl Write for SimFile {
    fn write(&mut self, buf: &[u8]) -> io::Result<usize> {
        self.disk.yield_now();
        self.calls += 1;
        self.disk.state.lock().unwrap().write_calls += 1;
        if buf.is_empty() {
            return Ok(0);
        }
        if let Some(n) = self.disk.plan.interrupt_every {
            if n > 0 && self.calls % n == 0 {
                self.disk.fire("io-interrupted");
                return Err(io::Error::new(io::ErrorKind::Interrupted, "injected EINTR"));
            }
        }
        let mut accept = buf.len();
        if let Some(s) = self.disk.plan.short_writes {
            if accept > s as usize {
                accept = (s as usize).max(1);
                self.disk.fire("io-short-write");
            }
        }
        if self.targeted() {
            if let Some(limit) = self.disk.plan.error_at {
                let room = limit.saturating_sub(self.written) as usize;
                if room == 0 {
                    self.disk.fire("io-error-at");
                    return Err(io::Error::new(io::ErrorKind::Other, "injected: no space left on device"));
                }
                accept = accept.min(room);
            }
        }
        if let Err(e) = self.real.write_all(&buf[..accept]) {
            eprintln!("harness error: cannot write through to {}: {e}", self.path.display());
            std::process::exit(2);
        }
        self.disk
            .state
            .lock()
            .unwrap()
            .files
            .entry(self.path.clone())
            .or_default()
            .extend_from_slice(&buf[..accept]);
        self.written += accept as u64;
        Ok(accept)
    }

    fn flush(&mut self) -> io::Result<()> {
        self.disk.yield_now();
        if self.disk.plan.flush_fail && self.targeted() {
            self.disk.fire("io-flush-fail");
            return Err(io::Error::new(io::ErrorKind::Other, "injected flush failure"));
        }
        Ok(())
    }
}

impl IoHook for SimDisk {
    fn before_create(&self, _path: &Path) -> io::Result<()> {
        self.yield_now();
        let k = {
            let mut st = self.state.lock().unwrap();
            let k = st.creates;
            st.creates += 1;
            k
        };
        if self.plan.create_fail_at == Some(k) {
            self.fire("io-create-fail");
            return Err(io::Error::new(io::ErrorKind::PermissionDenied, "injected create failure"));
        }
        Ok(())
    }

    fn before_create_dir(&self, path: &Path) -> io::Result<()> {
        self.yield_now();
        let k = {
            let mut st = self.state.lock().unwrap();
            let k = st.mkdirs;
            st.mkdirs += 1;
            st.dirs.push(path.to_path_buf());
            k
        };
        if self.plan.mkdir_fail_at == Some(k) {
            self.fire("io-mkdir-fail");
            return Err(io::Error::new(io::ErrorKind::PermissionDenied, "injected mkdir failure"));
        }
        Ok(())
    }

    fn wrap(&self, path: &Path, file: File) -> Box<dyn Write> {
        let index = {
            let mut st = self.state.lock().unwrap();
            st.files.insert(path.to_path_buf(), Vec::new());
            st.creates - 1
        };
        Box::new(SimFile { disk: self.clone(), real: file, path: path.to_path_buf(), index, written: 0, calls: 0 })
    }
}

/// The regular files of `folder` on the real file system (name -> content), i.e. what the
/// simulated disk holds after every hooked and unhooked operation of the code under test.
pub fn real_files(folder: &Path) -> BTreeMap<String, Vec<u8>> {
    let mut out = BTreeMap::new();
    if let Ok(rd) = std::fs::read_dir(folder) {
        for e in rd.flatten() {
            if e.file_type().map(|t| t.is_file()).unwrap_or(false) {
                if let Ok(b) = std::fs::read(e.path()) {
                    out.insert(e.file_name().to_string_lossy().to_string(), b);
                }
            }
        }
    }
    out
}

/// Installs `disk` as the I/O hook of the current thread for the duration of `f`.
pub fn with_disk<R>(disk: &SimDisk, f: impl FnOnce() -> R) -> R {
    let prev = mahf::verif::io::install(Some(std::rc::Rc::new(disk.clone())));
    let r = f();
    mahf::verif::io::install(prev);
    r
}

// ---------------------------------------------------------------------------------------------

thread_local! {
    static SCRATCH: std::cell::RefCell<Option<PathBuf>> = const { std::cell::RefCell::new(None) };
}
static SCRATCH_SEQ: std::sync::atomic::AtomicU64 = std::sync::atomic::AtomicU64::new(0);

pub fn scratch_root() -> PathBuf {
    // the simulated disk writes through to real files, millions of them per thorough run: keep
    // them in memory where the system offers a RAM-backed file system (VERIF_SCRATCH overrides)
    let base = match std::env::var_os("VERIF_SCRATCH") {
        Some(p) => PathBuf::from(p),
        None => {
            let shm = PathBuf::from("/dev/shm");
            if shm.is_dir() && std::fs::metadata(&shm).map(|m| !m.permissions().readonly()).unwrap_or(false) {
                shm
            } else {
                std::env::temp_dir()
            }
        }
    };
    base.join(format!("mahf-verif-sim-{}", std::process::id()))
}

/// A private scratch directory for the calling thread (removed by `cleanup_scratch`).
pub fn scratch_dir() -> PathBuf {
    SCRATCH.with(|s| {
        let mut s = s.borrow_mut();
        if s.is_none() {
            let k = SCRATCH_SEQ.fetch_add(1, std::sync::atomic::Ordering::SeqCst);
            let p = scratch_root().join(format!("t{k}"));
            std::fs::create_dir_all(&p).unwrap_or_else(|e| {
                eprintln!("harness error: cannot create scratch dir {}: {e}", p.display());
                std::process::exit(2);
            });
            *s = Some(p);
        }
        s.clone().unwrap()
    })
}

/// Removes scratch directories left behind by simulator processes that no longer exist.
pub fn cleanup_stale_scratch() {
    let Some(base) = scratch_root().parent().map(|p| p.to_path_buf()) else { return };
    let Ok(rd) = std::fs::read_dir(&base) else { return };
    for e in rd.flatten() {
        let name = e.file_name().to_string_lossy().to_string();
        if let Some(pid) = name.strip_prefix("mahf-verif-sim-").and_then(|p| p.parse::<u32>().ok()) {
            if pid != std::process::id() && !Path::new(&format!("/proc/{pid}")).exists() {
                let _ = std::fs::remove_dir_all(e.path());
            }
        }
    }
}

pub fn cleanup_scratch() {
    let _ = std::fs::remove_dir_all(scratch_root());
}

// ---------------------------------------------------------------------------------------------
// decoding exported logs

#[derive(Clone, Debug, PartialEq, PartialOrd)]
pub enum Norm {
    Null,
    U(u64),
    I(i64),
    F(u64),
    Other(String),
}

pub type DecodedLog = Vec<BTreeMap<String, Norm>>;

fn norm_json(v: &Value) -> Norm {
    match v {
        Value::Null => Norm::Null,
        Value::Number(n) => {
            if let Some(u) = n.as_u64() {
                Norm::U(u)
            } else if let Some(i) = n.as_i64() {
                Norm::I(i)
            } else {
                Norm::F(n.as_f64().unwrap_or(f64::NAN).to_bits())
            }
        }
        other => Norm::Other(other.to_string()),
    }
}

pub fn decode_json(bytes: &[u8]) -> Result<DecodedLog, String> {
    let v: Value = serde_json::from_slice(bytes).map_err(|e| format!("json: {e}"))?;
    let names: Vec<String> = v["names"]
        .as_array()
        .ok_or("json: no names array")?
        .iter()
        .map(|n| n.as_str().map(|s| s.to_string()).ok_or("json: name is not a string"))
        .collect::<Result<_, _>>()?;
    let mut out = Vec::new();
    for step in v["entries"].as_array().ok_or("json: no entries array")? {
        let obj = step.as_object().ok_or("json: step is not an object")?;
        let mut m = BTreeMap::new();
        for (k, val) in obj {
            let idx: usize = k.parse().map_err(|_| format!("json: key {k} is not an index"))?;
            let name = names.get(idx).ok_or(format!("json: key {idx} has no name"))?;
            if m.insert(name.clone(), norm_json(val)).is_some() {
                return Err(format!("json: duplicate name {name} in a step"));
            }
        }
        out.push(m);
    }
    Ok(out)
}

fn norm_cbor(v: &ciborium::Value) -> Norm {
    use ciborium::Value as C;
    match v {
        C::Null => Norm::Null,
        C::Integer(i) => {
            let x: i128 = (*i).into();
            if x >= 0 {
                Norm::U(x as u64)
            } else {
                Norm::I(x as i64)
            }
        }
        C::Float(f) => Norm::F(f.to_bits()),
        other => Norm::Other(format!("{other:?}")),
    }
}

pub fn decode_cbor(bytes: &[u8]) -> Result<DecodedLog, String> {
    use ciborium::Value as C;
    let v: C = ciborium::de::from_reader(bytes).map_err(|e| format!("cbor: {e}"))?;
    let top = match &v {
        C::Map(m) => m,
        _ => return Err("cbor: top level is not a map".into()),
    };
    let get = |key: &str| top.iter().find(|(k, _)| matches!(k, C::Text(t) if t == key)).map(|(_, v)| v);
    let names: Vec<String> = match get("names") {
        Some(C::Array(a)) => a
            .iter()
            .map(|n| match n {
                C::Text(t) => Ok(t.clone()),
                _ => Err("cbor: name is not text".to_string()),
            })
            .collect::<Result<_, _>>()?,
        _ => return Err("cbor: no names array".into()),
    };
    let mut out = Vec::new();
    match get("entries") {
        Some(C::Array(steps)) => {
            for step in steps {
                let entries = match step {
                    C::Map(m) => m,
                    _ => return Err("cbor: step is not a map".into()),
                };
                let mut m = BTreeMap::new();
                for (k, val) in entries {
                    let idx: usize = match k {
                        C::Integer(i) => {
                            let x: i128 = (*i).into();
                            x as usize
                        }
                        _ => return Err("cbor: key is not an integer".into()),
                    };
                    let name = names.get(idx).ok_or(format!("cbor: key {idx} has no name"))?;
                    if m.insert(name.clone(), norm_cbor(val)).is_some() {
                        return Err(format!("cbor: duplicate name {name} in a step"));
                    }
                }
                out.push(m);
            }
        }
        _ => return Err("cbor: no entries array".into()),
    }
    Ok(out)
}

/// JSON numbers lose the int/float distinction for integral floats; compare up to that.
pub fn logs_equal(a: &DecodedLog, b: &DecodedLog) -> bool {
    if a.len() != b.len() {
        return false;
    }
    let same = |x: &Norm, y: &Norm| -> bool {
        if x == y {
            return true;
        }
        let as_f = |n: &Norm| match n {
            Norm::U(u) => Some(*u as f64),
            Norm::I(i) => Some(*i as f64),
            Norm::F(b) => Some(f64::from_bits(*b)),
            _ => None,
        };
        match (as_f(x), as_f(y)) {
            (Some(p), Some(q)) => p.to_bits() == q.to_bits(),
            _ => false,
        }
    };
    a.iter().zip(b).all(|(m, n)| m.len() == n.len() && m.iter().zip(n.iter()).all(|((k1, v1), (k2, v2))| k1 == k2 && same(v1, v2)))
}
