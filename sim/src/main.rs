mod checks;
mod engine;
mod framework;
mod par;
mod rng;
mod simio;
mod tw;

use framework::*;

fn usage() -> ! {
    eprintln!("usage: sim check <ID> <quick|thorough> | sim replay <file>");
    std::process::exit(2);
}

fn main() {
    install_panic_hook();
    let args: Vec<String> = std::env::args().collect();
    if args.len() < 2 {
        usage();
    }
    match args[1].as_str() {
        "check" => {
            if args.len() < 3 {
                usage();
            }
            let id = args[2].as_str();
            let tier = match args.get(3).map(|s| s.as_str()).or(std::env::var("VERIF_TIER").ok().as_deref()) {
                Some("thorough") => Tier::Thorough,
                Some("quick") | None => Tier::Quick,
                Some(other) => {
                    eprintln!("harness error: unknown tier {other}");
                    std::process::exit(2);
                }
            };
            let seed: u64 = match std::env::var("VERIF_SEED") {
                Ok(s) => match s.trim().parse::<i64>() {
                    Ok(v) => v as u64,
                    Err(_) => {
                        eprintln!("harness error: VERIF_SEED is not an integer: {s}");
                        std::process::exit(2);
                    }
                },
                Err(_) => 1,
            };
            println!("VERIF_SEED={seed} check={id} tier={}", tier.name());
            let known = KnownFindings::load();
            let t0 = std::time::Instant::now();
            let report = match id {
                "C01" => checks::c01::run(tier, seed, &known),
                "C02" => checks::c02::run(tier, seed, &known),
                "C03" => checks::c03::run(tier, seed, &known),
                "C05" => checks::tworld::run_c05(tier, seed, &known),
                "C06" => checks::tworld::run_c06(tier, seed, &known),
                "C07" => checks::tworld::run_c07(tier, seed, &known),
                "C16" => checks::tworld::run_c16(tier, seed, &known),
                "C18" => checks::tworld::run_c18(tier, seed, &known),
                "C19" => checks::tworld::run_c19(tier, seed, &known),
                "C20" => checks::tworld::run_c20(tier, seed, &known),
                "C08" => checks::c08::run(tier, seed, &known),
                "C10" => checks::c10::run(tier, seed, &known),
                "C15" => checks::c15::run(tier, seed, &known),
                _ => {
                    eprintln!("harness error: no check for {id}");
                    std::process::exit(2);
                }
            };
            let code = report.finish(t0.elapsed().as_secs_f64());
            simio::cleanup_scratch();
            std::process::exit(code);
        }
        "replay" => {
            if args.len() < 3 {
                usage();
            }
            let text = match std::fs::read_to_string(&args[2]) {
                Ok(t) => t,
                Err(e) => {
                    eprintln!("harness error: cannot read {}: {e}", args[2]);
                    std::process::exit(2);
                }
            };
            let file: ReplayFile = match serde_json::from_str(&text) {
                Ok(f) => f,
                Err(e) => {
                    eprintln!("harness error: cannot parse {}: {e}", args[2]);
                    std::process::exit(2);
                }
            };
            let res = match file.world.as_str() {
                "engine-programs" => replay_text(&checks::c03::C03World { real_conds: 0.0, loggers: false }, &text),
                "registry-histories" => replay_text(&checks::c01::Histories, &text),
                "registry-in-programs" => replay_text(&checks::c01::ScopedPrograms, &text),
                "guard-histories" => replay_text(&checks::c02::Guards, &text),
                "multi-borrow" => replay_text(&checks::c02::Multi, &text),
                "holding-histories" => replay_text(&checks::c02::Holding, &text),
                other => {
                    eprintln!("harness error: unknown world {other}");
                    std::process::exit(2);
                }
            };
            match res {
                Ok(Some(v)) => {
                    println!("replay: violation class: {}", v.class);
                    println!("replay: {}", v.message);
                    if v == file.violation {
                        println!("replay: reproduces the recorded violation exactly");
                    } else {
                        println!("replay: DIFFERS from the recorded violation: {:?}", file.violation);
                    }
                    println!("VIOLATION property={} replay={}", file.property, args[2]);
                    std::process::exit(1);
                }
                Ok(None) => {
                    println!("replay: no violation (the property holds on this case for the current tree)");
                    std::process::exit(0);
                }
                Err(e) => {
                    eprintln!("harness error: {e}");
                    std::process::exit(2);
                }
            }
        }
        _ => usage(),
    }
}
