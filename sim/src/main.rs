fn main() { println!("sim"); }
