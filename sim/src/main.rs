mod checks;
mod engine;
mod framework;
mod par;
mod rng;
mod simio;
mod tw;

use framework::*;

fn usage() -> ! {
    eprintln!("usage: sim check <ID> <quick|thorough> | sim replay <file>");
    std::process::exit(2);
}

fn main() {
    install_panic_hook();
    framework::watchdog::start();
    simio::cleanup_stale_scratch();
    let args: Vec<String> = std::env::args().collect();
    if args.len() < 2 {
        usage();
    }
    match args[1].as_str() {
        "check" => {
            if args.len() < 3 {
                usage();
            }
            let id = args[2].as_str();
            let tier = match args.get(3).map(|s| s.as_str()).or(std::env::var("VERIF_TIER").ok().as_deref()) {
                Some("thorough") => Tier::Thorough,
                Some("quick") | None => Tier::Quick,
                Some(other) => {
                    eprintln!("harness error: unknown tier {other}");
                    std::process::exit(2);
                }
            };
            let seed: u64 = match std::env::var("VERIF_SEED") {
                Ok(s) => match s.trim().parse::<i64>() {
                    Ok(v) => v as u64,
                    Err(_) => {
                        eprintln!("harness error: VERIF_SEED is not an integer: {s}");
                        std::process::exit(2);
                    }
                },
                Err(_) => 1,
            };
            println!("VERIF_SEED={seed} check={id} tier={}", tier.name());
            let known = KnownFindings::load();
            let t0 = std::time::Instant::now();
            let report = match id {
                "C01" => checks::c01::run(tier, seed, &known),
                "C02" => checks::c02::run(tier, seed, &known),
                "C03" => checks::c03::run(tier, seed, &known),
                "C05" => checks::tworld::run_c05(tier, seed, &known),
                "C06" => checks::tworld::run_c06(tier, seed, &known),
                "C07" => checks::tworld::run_c07(tier, seed, &known),
                "C16" => checks::tworld::run_c16(tier, seed, &known),
                "C18" => checks::tworld::run_c18(tier, seed, &known),
                "C19" => checks::tworld::run_c19(tier, seed, &known),
                "C20" => checks::tworld::run_c20(tier, seed, &known),
                "C08" => checks::c08::run(tier, seed, &known),
                "C10" => checks::c10::run(tier, seed, &known),
                "C15" => checks::c15::run(tier, seed, &known),
                _ => {
                    eprintln!("harness error: no check for {id}");
                    std::process::exit(2);
                }
            };
            let code = report.finish(t0.elapsed().as_secs_f64());
            simio::cleanup_scratch();
            std::process::exit(code);
        }
        "replay" => {
            if args.len() < 3 {
                usage();
            }
            let text = match std::fs::read_to_string(&args[2]) {
                Ok(t) => t,
                Err(e) => {
                    eprintln!("harness error: cannot read {}: {e}", args[2]);
                    std::process::exit(2);
                }
            };
            let file: ReplayFile = match serde_json::from_str(&text) {
                Ok(f) => f,
                Err(e) => {
                    eprintln!("harness error: cannot parse {}: {e}", args[2]);
                    std::process::exit(2);
                }
            };
            let res = match file.world.as_str() {
                "engine-programs" => replay_text(&checks::c03::C03World { real_conds: 0.0, loggers: false }, &text),
                "registry-histories" => replay_text(&checks::c01::Histories, &text),
                "registry-in-programs" => replay_text(&checks::c01::ScopedPrograms, &text),
                "guard-histories" => replay_text(&checks::c02::Guards, &text),
                "multi-borrow" => replay_text(&checks::c02::Multi, &text),
                "holding-histories" => replay_text(&checks::c02::Holding, &text),
                "condition-programs" => replay_text(&checks::c10::CondPrograms, &text),
                "bounded-loops" => replay_text(&checks::c10::BoundedLoops, &text),
                "random-chance" => replay_text(&checks::c10::Chance, &text),
                "log-content" => replay_text(&checks::c15::LogContent, &text),
                "export-faults" => replay_text(&checks::c15::ExportFaults, &text),
                "dev-full" => replay_text(&checks::c15::DevFull, &text),
                "config-export-trees" => replay_text(&checks::c15::ConfigExport, &text),
                "config-export-templates" => replay_text(&checks::c15::TemplateExport, &text),
                "seq-vs-par" => replay_text(&checks::c08::SeqVsPar { prop: "C08", name: "seq-vs-par", mix: false }, &text),
                "seq-vs-par-c05" => replay_text(&checks::c08::SeqVsPar { prop: "C05", name: "seq-vs-par-c05", mix: false }, &text),
                "seq-vs-par-c06" => replay_text(&checks::c08::SeqVsPar { prop: "C06", name: "seq-vs-par-c06", mix: false }, &text),
                "seq-vs-par-c16" => replay_text(&checks::c08::SeqVsPar { prop: "C16", name: "seq-vs-par-c16", mix: false }, &text),
                "seq-vs-par-c18" => replay_text(&checks::c08::SeqVsPar { prop: "C18", name: "seq-vs-par-c18", mix: false }, &text),
                "seq-vs-par-mix-c05" => replay_text(&checks::c08::SeqVsPar { prop: "C05", name: "seq-vs-par-mix-c05", mix: true }, &text),
                "seq-vs-par-mix-c06" => replay_text(&checks::c08::SeqVsPar { prop: "C06", name: "seq-vs-par-mix-c06", mix: true }, &text),
                "generators" => replay_text(&checks::c08::Generators, &text),
                "history-independence" => replay_text(&checks::c08::HistoryIndependence, &text),
                "evaluator-identifiers" => replay_text(&checks::tworld::EvalIds, &text),
                "individual-histories" => replay_text(&checks::indiv::IndividualHistories, &text),
                "prepared-reactions" => replay_text(&checks::prepared::Reactions, &text),
                "two-swarms" => replay_text(&checks::swarms::TwoSwarms, &text),
                "par-experiment" => {
                    let _quiet = par::StdoutSilencer::new();
                    replay_text(&checks::experiment::Experiment { prop: match file.property.as_str() { "C15" => "C15", "C05" => "C05", "C06" => "C06", _ => "C08" } }, &text)
                }
                w if w.starts_with("templates-") => {
                    let prop: &'static str = match file.property.as_str() {
                        "C05" => "C05",
                        "C06" => "C06",
                        "C07" => "C07",
                        "C16" => "C16",
                        "C18" => "C18",
                        "C19" => "C19",
                        "C20" => "C20",
                        _ => "C16",
                    };
                    replay_text(&checks::tworld::TemplateWorld { prop, world_name: "templates", kinds: vec![], penalty: 0.0, faults: checks::tworld::FaultMix::None, max_iters: (1, 1), evaluations_term: false, log: false, compound_term: false, key_steps: &[] }, &text)
                }
                other => {
                    eprintln!("harness error: unknown world {other}");
                    std::process::exit(2);
                }
            };
            match res {
                Ok(Some(v)) => {
                    println!("replay: violation class: {}", v.class);
                    println!("replay: {}", v.message);
                    if v == file.violation {
                        println!("replay: reproduces the recorded violation exactly");
                    } else {
                        println!("replay: DIFFERS from the recorded violation: {:?}", file.violation);
                    }
                    println!("VIOLATION property={} replay={}", file.property, args[2]);
                    std::process::exit(1);
                }
                Ok(None) => {
                    println!("replay: no violation (the property holds on this case for the current tree)");
                    std::process::exit(0);
                }
                Err(e) => {
                    eprintln!("harness error: {e}");
                    std::process::exit(2);
                }
            }
        }
        _ => usage(),
    }
}
