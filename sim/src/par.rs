//! Par world: executing a workload inside a shuttle execution whose scheduler is seeded,
//! recorded and replayable; the rayon shim turns every parallel call of mahf into simulated
//! workers of that execution.

use crate::framework::guarded;
use crate::rng::{Fp, Gen};
use serde::{Deserialize, Serialize};
use shuttle::scheduler::{PctScheduler, Schedule, Scheduler, Task, TaskId};
use std::sync::{Arc, Mutex};

#[derive(Clone, Copy, Debug, PartialEq, Serialize, Deserialize)]
pub enum SchedKind {
    /// uniform choice among runnable tasks at every scheduling point
    Random,
    /// keeps running the current task with probability 0.85 (long uninterrupted stretches)
    Sticky,
    /// shuttle's PCT scheduler (priority-based, depth 3)
    Pct,
    /// uniform choice, plus stalled workers: now and then the running task is descheduled for
    /// 20..400 scheduling points (a slow or preempted worker) while the others carry on
    Stall,
}

#[derive(Clone, Copy, Debug, PartialEq, Serialize, Deserialize)]
pub struct SchedSpec {
    pub workers: usize,
    pub seed: u64,
    pub kind: SchedKind,
}

struct SeededScheduler {
    g: Gen,
    sticky: bool,
    stall: bool,
    /// task id -> scheduling points it still sits out
    stalled: Vec<(usize, u32)>,
    stalls: Arc<Mutex<u64>>,
    done: bool,
    record: Arc<Mutex<Vec<u32>>>,
}

impl Scheduler for SeededScheduler {
    fn new_execution(&mut self) -> Option<Schedule> {
        if self.done {
            return None;
        }
        self.done = true;
        Some(Schedule::new(0))
    }
    fn next_task(&mut self, runnable: &[&Task], current: Option<TaskId>, _is_yielding: bool) -> Option<TaskId> {
        if self.stall {
            for e in self.stalled.iter_mut() {
                e.1 = e.1.saturating_sub(1);
            }
            self.stalled.retain(|e| e.1 > 0);
            if let Some(c) = current {
                let c: usize = c.into();
                if runnable.len() > 1 && self.g.chance(0.03) && !self.stalled.iter().any(|e| e.0 == c) {
                    let n = 20 + self.g.below(381) as u32;
                    self.stalled.push((c, n));
                    *self.stalls.lock().unwrap() += 1;
                }
            }
            let awake: Vec<TaskId> = runnable.iter().map(|t| t.id()).filter(|id| { let i: usize = (*id).into(); !self.stalled.iter().any(|e| e.0 == i) }).collect();
            let pick = if awake.is_empty() { runnable[self.g.below(runnable.len())].id() } else { awake[self.g.below(awake.len())] };
            let id: usize = pick.into();
            self.record.lock().unwrap().push(id as u32);
            return Some(pick);
        }
        let pick = if self.sticky {
            match current {
                Some(c) if runnable.iter().any(|t| t.id() == c) && self.g.chance(0.85) => c,
                _ => runnable[self.g.below(runnable.len())].id(),
            }
        } else {
            runnable[self.g.below(runnable.len())].id()
        };
        let id: usize = pick.into();
        self.record.lock().unwrap().push(id as u32);
        Some(pick)
    }
    fn next_u64(&mut self) -> u64 {
        self.g.u64()
    }
}

struct Recording<S: Scheduler> {
    inner: S,
    record: Arc<Mutex<Vec<u32>>>,
}

impl<S: Scheduler> Scheduler for Recording<S> {
    fn new_execution(&mut self) -> Option<Schedule> {
        self.inner.new_execution()
    }
    fn next_task(&mut self, runnable: &[&Task], current: Option<TaskId>, is_yielding: bool) -> Option<TaskId> {
        let t = self.inner.next_task(runnable, current, is_yielding);
        if let Some(t) = t {
            let id: usize = t.into();
            self.record.lock().unwrap().push(id as u32);
        }
        t
    }
    fn next_u64(&mut self) -> u64 {
        self.inner.next_u64()
    }
}

pub struct ParRun<R> {
    pub result: Result<R, String>,
    /// hash of the sequence of scheduled task ids (distinct interleavings measure)
    pub schedule_hash: u64,
    pub scheduler_steps: u64,
    pub context_switches: u64,
    /// stalled-worker faults injected by the scheduler
    pub stalls: u64,
}

/// Runs `f` as the main task of one shuttle execution with `spec.workers` simulated pool workers.
pub fn run_in_shuttle<R, F>(spec: SchedSpec, f: F) -> ParRun<R>
where
    R: Send + 'static,
    F: Fn() -> R + Send + Sync + 'static,
{
    let record = Arc::new(Mutex::new(Vec::<u32>::new()));
    let stalls = Arc::new(Mutex::new(0u64));
    let slot: Arc<Mutex<Option<R>>> = Arc::new(Mutex::new(None));
    let slot2 = slot.clone();
    let mut config = shuttle::Config::new();
    config.failure_persistence = shuttle::FailurePersistence::None;
    config.max_steps = shuttle::MaxSteps::FailAfter(20_000_000);
    config.silence_warnings = true;
    rayon::sim::configure(spec.workers, true);
    let body = move || {
        let r = f();
        *slot2.lock().unwrap() = Some(r);
    };
    let outcome = guarded(|| match spec.kind {
        SchedKind::Random | SchedKind::Sticky | SchedKind::Stall => {
            let s = SeededScheduler { g: Gen::new(spec.seed ^ 0x5EED_5C4E_D01E), sticky: spec.kind == SchedKind::Sticky, stall: spec.kind == SchedKind::Stall, stalled: Vec::new(), stalls: stalls.clone(), done: false, record: record.clone() };
            shuttle::Runner::new(s, config).run(body);
        }
        SchedKind::Pct => {
            let s = Recording { inner: PctScheduler::new_from_seed(spec.seed, 3, 1), record: record.clone() };
            shuttle::Runner::new(s, config).run(body);
        }
    });
    rayon::sim::configure(0, true);
    let rec = record.lock().unwrap();
    let mut h = Fp::new();
    let mut switches = 0u64;
    for w in rec.windows(2) {
        if w[0] != w[1] {
            switches += 1;
        }
    }
    for t in rec.iter() {
        h.u64(*t as u64);
    }
    let result = match outcome {
        Ok(()) => slot.lock().unwrap().take().ok_or_else(|| "shuttle execution produced no result".to_string()),
        Err(p) => Err(p),
    };
    let stalls = *stalls.lock().unwrap();
    ParRun { result, schedule_hash: h.0, scheduler_steps: rec.len() as u64, context_switches: switches, stalls }
}

pub fn gen_sched(g: &mut Gen) -> SchedSpec {
    SchedSpec {
        workers: *g.pick(&[1, 2, 2, 3, 4, 8]),
        seed: g.u64(),
        kind: *g.pick(&[SchedKind::Random, SchedKind::Stall, SchedKind::Sticky, SchedKind::Pct]),
    }
}

// ---------------------------------------------------------------------------------------------
// silencing stdout around code that prints (par_experiment prints a line per call)

extern "C" {
    fn dup(fd: i32) -> i32;
    fn dup2(old: i32, new: i32) -> i32;
    fn close(fd: i32) -> i32;
    fn open(path: *const std::ffi::c_char, flags: i32, ...) -> i32;
}

pub struct StdoutSilencer {
    saved: i32,
}

impl StdoutSilencer {
    pub fn new() -> Self {
        use std::io::Write;
        let _ = std::io::stdout().flush();
        unsafe {
            let saved = dup(1);
            let null = open(b"/dev/null\0".as_ptr() as *const std::ffi::c_char, 1);
            if null >= 0 {
                dup2(null, 1);
                close(null);
            }
            StdoutSilencer { saved }
        }
    }
}

impl Drop for StdoutSilencer {
    fn drop(&mut self) {
        use std::io::Write;
        let _ = std::io::stdout().flush();
        unsafe {
            if self.saved >= 0 {
                dup2(self.saved, 1);
                close(self.saved);
            }
        }
    }
}
