//! Thread world: mahf's two parallel paths on the REAL rayon, executed under Miri's seeded
//! scheduler (`-Zmiri-seed` decides every preemption, `-Zmiri-preemption-rate` how often a
//! thread is descheduled at the end of a basic block). One (scenario, workload seed, Miri seed)
//! triple is one exactly repeatable execution at a granularity far below the simulated pool of
//! the `sim` crate: switches happen inside mahf's own code, inside rayon and inside whatever a
//! change adds (std atomics, locks, threads), and Miri reports data races and undefined
//! behaviour on the way.
//!
//!   thread_world ga  <workload seed> <threads>    C05 / C06 / C08: sequential vs parallel evaluator
//!   thread_world eval <workload seed> <threads>   C05 / C06: many direct Parallel::evaluate calls on small populations
//!   thread_world aco <workload seed> <threads>    C19: Ant System update of a large colony
//!   thread_world exp <workload seed> <threads>    C08 / C15: par_experiment, every run vs the run alone
//!                                                  (writes under $THREAD_WORLD_DIR; needs -Zmiri-disable-isolation)
//!
//! Output: one line `THREAD-WORLD ok ...` (exit 0) or `THREAD-WORLD VIOLATION class=<..> <message>`
//! (exit 1). Anything else (a panic outside the scenario's guard, a Miri error) is exit != 0, 1.

use better_any::{Tid, TidAble};
use mahf::components::generative::PheromoneMatrix;
use mahf::conditions::LessThanN;
use mahf::heuristics::{aco, ga};
use mahf::problems::{Evaluate, KnownOptimumProblem, ObjectiveFunction, Parallel, Sequential, TravellingSalespersonProblem, VectorProblem};
use mahf::{Problem, Random, SingleObjective, State};
use std::sync::atomic::{AtomicUsize, Ordering};
use std::sync::Mutex;

// ---------------------------------------------------------------------------------------------
// workload generator (SplitMix64): everything about the workload is a function of argv

struct Gen(u64);
impl Gen {
    fn u64(&mut self) -> u64 {
        self.0 = self.0.wrapping_add(0x9E37_79B9_7F4A_7C15);
        let mut z = self.0;
        z = (z ^ (z >> 30)).wrapping_mul(0xBF58_476D_1CE4_E5B9);
        z = (z ^ (z >> 27)).wrapping_mul(0x94D0_49BB_1331_11EB);
        z ^ (z >> 31)
    }
    fn below(&mut self, n: usize) -> usize {
        (self.u64() % n as u64) as usize
    }
    fn f64_in(&mut self, lo: f64, hi: f64) -> f64 {
        lo + (hi - lo) * ((self.u64() >> 11) as f64 / (1u64 << 53) as f64)
    }
}

// ---------------------------------------------------------------------------------------------
// problems

/// Weighted one-max over `dim` bits with a call log.
struct Bits {
    dim: usize,
    calls: AtomicUsize,
    log: Mutex<Vec<(Vec<bool>, f64)>>,
}
impl Bits {
    fn new(dim: usize) -> Self {
        Bits { dim, calls: AtomicUsize::new(0), log: Mutex::new(Vec::new()) }
    }
    fn f(x: &[bool]) -> f64 {
        x.iter().enumerate().map(|(i, b)| if *b { 0.0 } else { 1.0 + i as f64 * 0.25 }).sum()
    }
}
impl Problem for Bits {
    type Encoding = Vec<bool>;
    type Objective = SingleObjective;
    fn name(&self) -> &str {
        "bits"
    }
}
impl VectorProblem for Bits {
    type Element = bool;
    fn dimension(&self) -> usize {
        self.dim
    }
}
impl ObjectiveFunction for Bits {
    fn objective(&self, x: &Vec<bool>) -> SingleObjective {
        self.calls.fetch_add(1, Ordering::SeqCst);
        let v = Self::f(x);
        self.log.lock().unwrap().push((x.clone(), v));
        v.try_into().unwrap()
    }
}

struct Tsp {
    n: usize,
    d: Vec<f64>,
}
impl Tsp {
    fn len(&self, t: &[usize]) -> f64 {
        (0..t.len()).map(|i| self.d[t[i] * self.n + t[(i + 1) % t.len()]]).sum()
    }
}
impl Problem for Tsp {
    type Encoding = Vec<usize>;
    type Objective = SingleObjective;
    fn name(&self) -> &str {
        "tsp"
    }
}
impl VectorProblem for Tsp {
    type Element = usize;
    fn dimension(&self) -> usize {
        self.n
    }
}
impl TravellingSalespersonProblem for Tsp {
    fn distance(&self, edge: (usize, usize)) -> f64 {
        self.d[edge.0 * self.n + edge.1]
    }
}
impl ObjectiveFunction for Tsp {
    fn objective(&self, x: &Vec<usize>) -> SingleObjective {
        self.len(x).try_into().unwrap()
    }
}

/// A named bit problem for experiments (several of them differ in name and weights).
struct NamedBits {
    name: String,
    dim: usize,
    w: f64,
}
impl Problem for NamedBits {
    type Encoding = Vec<bool>;
    type Objective = SingleObjective;
    fn name(&self) -> &str {
        &self.name
    }
}
impl VectorProblem for NamedBits {
    type Element = bool;
    fn dimension(&self) -> usize {
        self.dim
    }
}
impl ObjectiveFunction for NamedBits {
    fn objective(&self, x: &Vec<bool>) -> SingleObjective {
        let v: f64 = x.iter().enumerate().map(|(i, b)| if *b { 0.0 } else { 1.0 + i as f64 * self.w }).sum();
        v.try_into().unwrap()
    }
}
impl KnownOptimumProblem for NamedBits {
    fn known_optimum(&self) -> SingleObjective {
        0.0.try_into().unwrap()
    }
}

#[derive(Tid)]
struct Marker;
impl mahf::CustomState<'_> for Marker {}

// ---------------------------------------------------------------------------------------------
// scenarios

type Res = Result<String, (String, String)>;

fn bad(class: &str, msg: String) -> Res {
    Err((class.to_string(), msg))
}

type Pop = Vec<(Vec<bool>, Option<u64>)>;

fn ga_run<E>(g_seed: u64, params: &ga::BinaryProblemParameters, iters: u32, dim: usize, evaluator: E) -> Result<(Pop, Option<(Vec<bool>, u64)>, u32, usize, Vec<(Vec<bool>, f64)>), String>
where
    E: Evaluate<Problem = Bits> + 'static,
{
    let problem = Bits::new(dim);
    let config = ga::binary_ga(
        ga::BinaryProblemParameters { population_size: params.population_size, tournament_size: params.tournament_size, rm: params.rm, pc: params.pc, pm: params.pm },
        LessThanN::iterations(iters),
    )
    .map_err(|e| format!("{e:#}"))?;
    let state: State<Bits> = config
        .optimize_with(&problem, move |state| {
            state.insert(Random::new(g_seed));
            state.insert_evaluator(evaluator);
            Ok(())
        })
        .map_err(|e| format!("{e:#}"))?;
    let pop: Pop = state.populations().current().iter().map(|i| (i.solution().clone(), i.get_objective().map(|o| o.value().to_bits()))).collect();
    let best = state.best_individual().map(|i| (i.solution().clone(), i.objective().value().to_bits()));
    let evals = state.evaluations();
    let calls = problem.calls.load(Ordering::SeqCst);
    let log = problem.log.lock().unwrap().clone();
    Ok((pop, best, evals, calls, log))
}

fn scenario_ga(seed: u64, threads: usize) -> Res {
    let mut g = Gen(seed ^ 0x6761);
    let dim = 3 + g.below(4);
    let params = ga::BinaryProblemParameters { population_size: (2 + g.below(7)) as u32, tournament_size: 2, rm: g.f64_in(0.0, 0.6), pc: g.f64_in(0.0, 1.0), pm: g.f64_in(0.0, 1.0) };
    let iters = 1 + g.below(2) as u32;
    let g_seed = g.u64();
    let seq = ga_run(g_seed, &params, iters, dim, Sequential::<Bits>::new()).map_err(|e| ("run-failed sequential".to_string(), e))?;
    let pool = rayon::ThreadPoolBuilder::new().num_threads(threads).build().map_err(|e| ("harness".to_string(), e.to_string()))?;
    let par = pool.install(|| ga_run(g_seed, &params, iters, dim, Parallel::<Bits>::new())).map_err(|e| ("run-failed parallel".to_string(), e))?;
    let what = format!("binary_ga population {} dimension {dim} iterations {iters} on {threads} threads", params.population_size);
    // C05: what the parallel evaluator wrote belongs to the solutions
    for (x, o) in &par.0 {
        if let Some(o) = o {
            if *o != Bits::f(x).to_bits() {
                return bad("stale-objective", format!("{what}: an individual carries {} but F = {}", f64::from_bits(*o), Bits::f(x)));
            }
        }
    }
    // C06: counter == calls, and the parallel run made the same calls as the sequential one
    if par.2 as usize != par.3 {
        return bad("evaluations-vs-calls", format!("{what}: the parallel run reports {} evaluations, the objective function was called {} times", par.2, par.3));
    }
    let sorted = |l: &Vec<(Vec<bool>, f64)>| {
        let mut v: Vec<(Vec<bool>, u64)> = l.iter().map(|(x, f)| (x.clone(), f.to_bits())).collect();
        v.sort();
        v
    };
    if sorted(&par.4) != sorted(&seq.4) {
        return bad("objective-calls-differ", format!("{what}: the parallel run evaluated another multiset of solutions than the sequential run ({} vs {} calls)", par.3, seq.3));
    }
    // C08: same seed, same run
    if par.0 != seq.0 {
        return bad("parallel-differs in=population", format!("{what}: final populations differ"));
    }
    if par.1 != seq.1 {
        return bad("parallel-differs in=best-individual", format!("{what}: best individuals differ"));
    }
    if par.2 != seq.2 {
        return bad("parallel-differs in=evaluations", format!("{what}: {} vs {} evaluations", par.2, seq.2));
    }
    Ok(format!("{what}: {} objective calls per run", par.3))
}

/// Many evaluation calls per execution (the pool is started once): the narrow windows inside
/// `Parallel::evaluate` get dozens of chances per schedule instead of three or four.
fn scenario_eval(seed: u64, threads: usize) -> Res {
    let mut g = Gen(seed ^ 0x6576616C);
    let dim = 4 + g.below(3);
    let rounds = 16;
    let pool = rayon::ThreadPoolBuilder::new().num_threads(threads).build().map_err(|e| ("harness".to_string(), e.to_string()))?;
    let problem = Bits::new(dim);
    let mut state: State<Bits> = State::new();
    let mut evaluator = Parallel::<Bits>::new();
    let what = format!("{rounds} Parallel::evaluate calls on populations of 2..9 over {dim} bits on {threads} threads");
    for round in 0..rounds {
        let n = 2 + g.below(8);
        let mut pop: Vec<mahf::Individual<Bits>> = (0..n)
            .map(|i| {
                // neighbours are often equal; all are unevaluated or carry a (correct) value
                let x: Vec<bool> = (0..dim).map(|_| g.below(2) == 1).collect();
                let _ = i;
                mahf::Individual::new_unevaluated(x)
            })
            .collect();
        if n > 2 && g.below(3) == 0 {
            let c = pop[0].solution().clone();
            pop[1] = mahf::Individual::new_unevaluated(c);
        }
        let before: Vec<Vec<bool>> = pop.iter().map(|i| i.solution().clone()).collect();
        problem.log.lock().unwrap().clear();
        let calls_before = problem.calls.load(Ordering::SeqCst);
        pool.install(|| evaluator.evaluate(&problem, &mut state, &mut pop));
        let calls = problem.calls.load(Ordering::SeqCst) - calls_before;
        for (i, ind) in pop.iter().enumerate() {
            if ind.solution() != &before[i] {
                return bad("evaluation-changed-population", format!("{what}: round {round}: individual {i} changed"));
            }
            match ind.get_objective() {
                None => return bad("evaluation-left-unevaluated", format!("{what}: round {round}: individual {i} of {n} is unevaluated after the evaluation")),
                Some(o) if o.value().to_bits() != Bits::f(ind.solution()).to_bits() => {
                    return bad("stale-objective", format!("{what}: round {round}: individual {i} carries {} but F = {}", o.value(), Bits::f(ind.solution())))
                }
                _ => {}
            }
        }
        if calls != n {
            return bad("evaluations-vs-calls", format!("{what}: round {round}: {n} individuals, the objective function was called {calls} times"));
        }
        let mut called: Vec<Vec<bool>> = problem.log.lock().unwrap().iter().map(|(x, _)| x.clone()).collect();
        let mut expected = before.clone();
        called.sort();
        expected.sort();
        if called != expected {
            return bad("objective-calls-differ", format!("{what}: round {round}: the objective was not called exactly once per individual"));
        }
    }
    Ok(what)
}

fn scenario_aco(seed: u64, threads: usize) -> Res {
    let mut g = Gen(seed ^ 0x61636F);
    let n = 4 + g.below(2);
    let mut d = vec![0.0; n * n];
    for a in 0..n {
        for b in a + 1..n {
            let x = g.f64_in(1.0, 10.0);
            d[a * n + b] = x;
            d[b * n + a] = x;
        }
    }
    let problem = Tsp { n, d };
    // colonies on both sides of any plausible "large colony" threshold
    let ants = if g.below(4) == 0 { 8 + g.below(8) } else { 64 + g.below(6) };
    let (tau0, rho, coef) = (g.f64_in(0.5, 2.0), g.f64_in(0.0, 1.0), g.f64_in(0.5, 2.0));
    let g_seed = g.u64();
    let config = aco::ant_system(aco::ASParameters::verif_new(ants, g.f64_in(0.0, 2.0), g.f64_in(0.0, 2.0), tau0, rho, coef), LessThanN::iterations(1)).map_err(|e| ("harness".to_string(), format!("{e:#}")))?;
    let pool = rayon::ThreadPoolBuilder::new().num_threads(threads).build().map_err(|e| ("harness".to_string(), e.to_string()))?;
    let state: State<Tsp> = pool
        .install(|| {
            config.optimize_with(&problem, |state| {
                state.insert(Random::new(g_seed));
                state.insert_evaluator(Sequential::<Tsp>::new());
                state.insert(Marker);
                Ok(())
            })
        })
        .map_err(|e| ("run-failed".to_string(), format!("{e:#}")))?;
    let what = format!("ant_system {ants} ants {n} cities on {threads} threads");
    let pops = state.populations();
    let pop = pops.current();
    if pop.len() != ants + 1 {
        return bad("aco-tour-count", format!("{what}: {} tours", pop.len()));
    }
    let mut exp = vec![(1.0 - rho) * tau0; n * n];
    for ind in pop.iter().skip(1) {
        let t = ind.solution();
        let mut s = t.clone();
        s.sort();
        if s != (0..n).collect::<Vec<_>>() || t[0] != 0 {
            return bad("aco-invalid-tour", format!("{what}: tour {t:?}"));
        }
        let delta = coef / problem.len(t);
        for w in t.windows(2) {
            exp[w[0] * n + w[1]] += delta;
            exp[w[1] * n + w[0]] += delta;
        }
    }
    let pm = state.borrow::<PheromoneMatrix>();
    for a in 0..n {
        for b in 0..n {
            if a == b {
                continue;
            }
            let x = pm[a][b];
            if !x.is_finite() || x < 0.0 {
                return bad("pheromone-not-finite-nonnegative", format!("{what}: trail ({a}, {b}) = {x}"));
            }
            if x.to_bits() != pm[b][a].to_bits() && (x - pm[b][a]).abs() > 1e-12 * x.abs().max(pm[b][a].abs()) {
                return bad("pheromone-not-symmetric", format!("{what}: trail ({a}, {b}) = {x} but ({b}, {a}) = {}", pm[b][a]));
            }
            let e = exp[a * n + b];
            if (x - e).abs() > 1e-9 * x.abs().max(e.abs()) + 1e-300 {
                return bad("pheromone-update-rule", format!("{what}: trail ({a}, {b}) is {x}, evaporation + deposits give {e}"));
            }
        }
    }
    Ok(what)
}

/// Decoded CBOR with every map sorted by its encoded keys (the export does not fix an order).
fn canonical(v: ciborium::Value) -> String {
    fn go(v: &ciborium::Value) -> String {
        match v {
            ciborium::Value::Map(m) => {
                let mut items: Vec<(String, String)> = m.iter().map(|(k, v)| (go(k), go(v))).collect();
                items.sort();
                format!("{{{}}}", items.iter().map(|(k, v)| format!("{k}:{v}")).collect::<Vec<_>>().join(","))
            }
            ciborium::Value::Array(a) => format!("[{}]", a.iter().map(go).collect::<Vec<_>>().join(",")),
            other => format!("{other:?}"),
        }
    }
    go(&v)
}

fn read_log(path: &std::path::Path) -> Result<String, String> {
    let bytes = std::fs::read(path).map_err(|e| format!("{}: {e}", path.display()))?;
    let v: ciborium::Value = ciborium::from_reader(bytes.as_slice()).map_err(|e| format!("{}: does not decode: {e}", path.display()))?;
    Ok(canonical(v))
}

fn scenario_exp(seed: u64, threads: usize) -> Res {
    let mut g = Gen(seed ^ 0x657870);
    let root = std::path::PathBuf::from(std::env::var("THREAD_WORLD_DIR").unwrap_or_else(|_| "/dev/shm/thread-world".into())).join(format!(
        "exp-{seed}-{threads}-{}-{}",
        std::process::id(),
        // executions of one sweep (-Zmiri-many-seeds) share the process id: the directory has to be
        // unique per execution, which only the host clock can give (isolation is off in this scenario)
        std::time::SystemTime::now().duration_since(std::time::UNIX_EPOCH).map(|d| d.as_nanos()).unwrap_or(0)
    ));
    let _ = std::fs::remove_dir_all(&root);
    let dim = 3 + g.below(3);
    let problems: Vec<NamedBits> = (0..2 + g.below(2)).map(|i| NamedBits { name: format!("bits{i}"), dim, w: 0.25 * (i + 1) as f64 }).collect();
    let runs = 2 + g.below(2) as u64;
    let params = || ga::BinaryProblemParameters { population_size: 3, tournament_size: 2, rm: 0.3, pc: 0.7, pm: 0.9 };
    let config = ga::binary_ga(params(), LessThanN::iterations(2)).map_err(|e| ("harness".to_string(), format!("{e:#}")))?;
    let setup = |state: &mut State<NamedBits>| -> mahf::ExecResult<()> {
        state.insert_evaluator(Sequential::<NamedBits>::new());
        state.configure_log(|c| {
            c.with_common(mahf::conditions::EveryN::iterations(1));
            Ok(())
        })
    };
    let pool = rayon::ThreadPoolBuilder::new().num_threads(threads).build().map_err(|e| ("harness".to_string(), e.to_string()))?;
    let exp_dir = root.join("experiment");
    pool.install(|| mahf::experiments::par_experiment(&config, setup, &problems, runs, &exp_dir, true)).map_err(|e| ("experiment-failed".to_string(), format!("{e:#}")))?;
    let what = format!("par_experiment {runs} runs x {} problems on {threads} threads", problems.len());
    // the file set is exact
    let mut files: Vec<String> = std::fs::read_dir(&exp_dir).map_err(|e| ("harness".to_string(), e.to_string()))?.filter_map(|e| e.ok()).map(|e| e.file_name().to_string_lossy().to_string()).collect();
    files.sort();
    let mut expected: Vec<String> = vec!["configuration.ron".to_string()];
    for p in &problems {
        for r in 0..runs {
            expected.push(format!("{}_{r}.cbor", p.name));
        }
    }
    expected.sort();
    if files != expected {
        let _ = std::fs::remove_dir_all(&root);
        return bad("experiment-file-set", format!("{what}: files {files:?}, expected {expected:?}"));
    }
    // every log equals the log of the same (problem, Random::new(run)) executed alone
    let alone_dir = root.join("alone");
    std::fs::create_dir_all(&alone_dir).map_err(|e| ("harness".to_string(), e.to_string()))?;
    for p in &problems {
        for r in 0..runs {
            let state = config
                .optimize_with(p, |state| {
                    state.insert(Random::new(r));
                    setup(state)
                })
                .map_err(|e| ("run-failed alone".to_string(), format!("{e:#}")))?;
            let f = alone_dir.join(format!("{}_{r}.cbor", p.name));
            state.log().to_cbor(&f).map_err(|e| ("harness".to_string(), format!("{e:#}")))?;
            let a = read_log(&f).map_err(|e| ("harness".to_string(), e))?;
            let b = match read_log(&exp_dir.join(format!("{}_{r}.cbor", p.name))) {
                Ok(b) => b,
                Err(e) => {
                    let _ = std::fs::remove_dir_all(&root);
                    return bad("experiment-log-unreadable", format!("{what}: {e}"));
                }
            };
            if a != b {
                let _ = std::fs::remove_dir_all(&root);
                return bad("experiment-log-differs", format!("{what}: the log of run {r} on {} differs from the log of the same run executed alone", p.name));
            }
        }
    }
    let _ = std::fs::remove_dir_all(&root);
    Ok(what)
}

fn main() {
    let args: Vec<String> = std::env::args().collect();
    if args.len() < 4 {
        eprintln!("usage: thread_world ga|aco|exp <workload seed> <threads>");
        std::process::exit(2);
    }
    let seed: u64 = args[2].parse().expect("seed");
    let threads: usize = args[3].parse().expect("threads");
    let r = match args[1].as_str() {
        "ga" => std::panic::catch_unwind(|| scenario_ga(seed, threads)),
        "eval" => std::panic::catch_unwind(|| scenario_eval(seed, threads)),
        "aco" => std::panic::catch_unwind(|| scenario_aco(seed, threads)),
        "exp" => std::panic::catch_unwind(|| scenario_exp(seed, threads)),
        other => {
            eprintln!("unknown scenario {other}");
            std::process::exit(2);
        }
    };
    match r {
        Ok(Ok(what)) => println!("THREAD-WORLD ok scenario={} seed={seed} {what}", args[1]),
        Ok(Err((class, msg))) if class == "harness" => {
            eprintln!("harness error: {msg}");
            std::process::exit(2);
        }
        Ok(Err((class, msg))) => {
            println!("THREAD-WORLD VIOLATION class={} scenario={} seed={seed} threads={threads} {msg}", class.replace(' ', "_"), args[1]);
            std::process::exit(1);
        }
        Err(_) => {
            println!("THREAD-WORLD VIOLATION class=panic scenario={} seed={seed} threads={threads} the scenario panicked", args[1]);
            std::process::exit(1);
        }
    }
}
