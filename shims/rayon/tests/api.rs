//! Type-checks and sanity-checks the shim's rayon surface, inline and inside a shuttle run.
use rayon::prelude::*;

fn workload() {
    let mut v: Vec<u64> = (0..20).collect();
    v.par_iter_mut().for_each(|x| *x += 1);
    assert_eq!(v[0], 1);
    let sq: Vec<u64> = v.par_iter().map(|x| x * x).collect();
    assert_eq!(sq, v.iter().map(|x| x * x).collect::<Vec<_>>());
    let idx: Vec<(usize, u64)> = v.par_iter().enumerate().map(|(i, x)| (i, *x)).collect();
    assert!(idx.iter().enumerate().all(|(k, (i, x))| k == *i && *x == v[k]));
    let z: Vec<u64> = v.par_iter().zip(sq.par_iter()).map(|(a, b)| a + b).collect();
    assert_eq!(z[3], v[3] + sq[3]);
    let s: u64 = v.par_iter().sum();
    assert_eq!(s, v.iter().sum::<u64>());
    let r = v.par_iter().map(|x| vec![*x]).reduce(Vec::new, |mut a, mut b| { a.append(&mut b); a });
    assert_eq!(r, v);
    let f: Vec<u64> = (0..10usize).into_par_iter().filter(|x| x % 2 == 0).map(|x| x as u64).collect();
    assert_eq!(f, vec![0, 2, 4, 6, 8]);
    let res: Result<Vec<u64>, String> = v.par_iter().map(|x| if *x < 100 { Ok(*x) } else { Err("big".to_string()) }).collect();
    assert_eq!(res.unwrap(), v);
    let e: Result<(), String> = v.par_iter().try_for_each(|x| if *x == 7 { Err("seven".into()) } else { Ok(()) });
    assert!(e.is_err());
    assert!(v.par_iter().any(|x| *x == 5));
    assert!(v.par_iter().all(|x| *x >= 1));
    assert_eq!(v.par_iter().count(), 20);
    assert_eq!(v.par_iter().min_by_key(|x| **x).copied(), Some(1));
    let chunks: Vec<u64> = v.par_chunks(3).map(|c| c.iter().sum::<u64>()).collect();
    assert_eq!(chunks.iter().sum::<u64>(), s);
    v.par_chunks_mut(4).for_each(|c| c[0] = 0);
    assert_eq!(v[4], 0);
    let (a, b) = rayon::join(|| 1, || 2);
    assert_eq!((a, b), (1, 2));
    let counter = std::sync::atomic::AtomicU32::new(0);
    rayon::scope(|s| {
        for _ in 0..5 {
            s.spawn(|s| {
                counter.fetch_add(1, std::sync::atomic::Ordering::SeqCst);
                s.spawn(|_| {
                    counter.fetch_add(1, std::sync::atomic::Ordering::SeqCst);
                });
            });
        }
    });
    assert_eq!(counter.load(std::sync::atomic::Ordering::SeqCst), 10);
    let pool = rayon::ThreadPoolBuilder::new().num_threads(3).build().unwrap();
    let n = pool.install(|| (0..8u32).into_par_iter().map(|x| x + 1).sum::<u32>());
    assert_eq!(n, 36);
    let b: Vec<u32> = (0..5u32).par_bridge().map(|x| x * 2).collect();
    let mut bs = b.clone();
    bs.sort();
    assert_eq!(bs, vec![0, 2, 4, 6, 8]);
    let c: Vec<u64> = vec![1u64, 2, 3].into_par_iter().collect();
    assert_eq!(c, vec![1, 2, 3]);
    let fsum: Vec<u64> = (0..10u64).into_par_iter().fold(|| 0u64, |a, x| a + x).collect();
    assert_eq!(fsum.iter().sum::<u64>(), 45);
    assert!(rayon::current_num_threads() >= 1);
}

#[test]
fn inline() {
    workload();
}

#[test]
fn simulated() {
    for seed in 0..20u64 {
        let sched = shuttle::scheduler::RandomScheduler::new_from_seed(seed, 1);
        let mut cfg = shuttle::Config::new();
        cfg.failure_persistence = shuttle::FailurePersistence::None;
        rayon::sim::configure(1 + (seed as usize % 4), true);
        shuttle::Runner::new(sched, cfg).run(workload);
        rayon::sim::configure(0, true);
    }
}
