//! Simulated worker pool standing in for `rayon` (see /verif/DESIGN.md §2.3).
//!
//! Only the surface mahf uses is provided:
//! `slice.par_iter_mut().for_each(..)` and
//! `iter.par_bridge().map(..).collect::<Result<(), E>>()`.
//!
//! Inside a simulated run (`sim::configure(workers >= 1)` on the OS thread that drives the
//! shuttle `Runner`) every parallel call runs its items on `workers` scoped **shuttle** threads
//! that pull from a shared queue; which worker runs when is decided by shuttle's seeded
//! scheduler, the hand-out order of slice items by `shuttle::rand` (part of the schedule).
//! Outside a simulated run (`workers == 0`, the default) items are processed inline, in order.

pub mod sim {
    use std::cell::Cell;

    thread_local! {
        static WORKERS: Cell<usize> = const { Cell::new(0) };
        static SHUFFLE: Cell<bool> = const { Cell::new(true) };
        static PAR_CALLS: Cell<u64> = const { Cell::new(0) };
        static ITEMS: Cell<u64> = const { Cell::new(0) };
    }

    /// Number of simulated workers for parallel calls issued from this OS thread
    /// (0 = inline sequential execution, no shuttle involvement).
    pub fn configure(workers: usize, shuffle: bool) {
        WORKERS.with(|w| w.set(workers));
        SHUFFLE.with(|s| s.set(shuffle));
    }

    pub fn workers() -> usize {
        WORKERS.with(|w| w.get())
    }

    pub(crate) fn shuffle() -> bool {
        SHUFFLE.with(|s| s.get())
    }

    pub(crate) fn note_call(items: u64) {
        PAR_CALLS.with(|c| c.set(c.get() + 1));
        ITEMS.with(|c| c.set(c.get() + items));
    }

    /// (parallel calls, items processed) since the last reset, on this OS thread.
    pub fn take_stats() -> (u64, u64) {
        let r = (PAR_CALLS.with(|c| c.get()), ITEMS.with(|c| c.get()));
        PAR_CALLS.with(|c| c.set(0));
        ITEMS.with(|c| c.set(0));
        r
    }
}

pub mod iter {
    use super::sim;
    use shuttle::rand::Rng;
    use std::sync::atomic::{AtomicBool, Ordering};

    /// Pull-based source of items shared by the simulated workers.
    pub trait Source: Send {
        type Item: Send;
        fn next_item(&mut self) -> Option<Self::Item>;
    }

    /// Run `consumer` over all items of `source`. `consumer` returns `false` to ask the pool to
    /// stop handing out further items (used for `Result` short-circuiting).
    fn run_pool<S, C>(mut source: S, consumer: C)
    where
        S: Source,
        C: Fn(S::Item) -> bool + Sync,
    {
        let k = sim::workers();
        let mut n = 0u64;
        if k == 0 {
            while let Some(item) = source.next_item() {
                n += 1;
                if !consumer(item) {
                    break;
                }
            }
            sim::note_call(n);
            return;
        }
        let queue = shuttle::sync::Mutex::new((source, 0u64));
        let stop = AtomicBool::new(false);
        shuttle::thread::scope(|scope| {
            for _ in 0..k {
                scope.spawn(|| loop {
                    if stop.load(Ordering::SeqCst) {
                        break;
                    }
                    let item = {
                        let mut q = queue.lock().unwrap();
                        let it = q.0.next_item();
                        if it.is_some() {
                            q.1 += 1;
                        }
                        it
                    };
                    match item {
                        Some(item) => {
                            // a worker can be preempted between taking an item and starting on
                            // it, and again before it comes back for the next one
                            shuttle::thread::sleep(std::time::Duration::from_millis(0));
                            if !consumer(item) {
                                stop.store(true, Ordering::SeqCst);
                            }
                            shuttle::thread::sleep(std::time::Duration::from_millis(0));
                        }
                        None => break,
                    }
                });
            }
        });
        let n = queue.into_inner().unwrap().1;
        sim::note_call(n);
    }

    pub trait ParallelIterator: Sized + Send {
        type Item: Send;

        #[doc(hidden)]
        fn drive<C>(self, consumer: C)
        where
            C: Fn(Self::Item) -> bool + Sync;

        fn for_each<F>(self, f: F)
        where
            F: Fn(Self::Item) + Sync + Send,
        {
            self.drive(|x| {
                f(x);
                true
            })
        }

        fn map<R, F>(self, f: F) -> Map<Self, F>
        where
            R: Send,
            F: Fn(Self::Item) -> R + Sync + Send,
        {
            Map { base: self, f }
        }

        fn collect<C>(self) -> C
        where
            C: FromParallelIterator<Self::Item>,
        {
            C::from_par_iter(self)
        }
    }

    pub trait FromParallelIterator<T: Send>: Sized {
        fn from_par_iter<I: ParallelIterator<Item = T>>(iter: I) -> Self;
    }

    impl FromParallelIterator<()> for () {
        fn from_par_iter<I: ParallelIterator<Item = ()>>(iter: I) -> Self {
            iter.drive(|()| true)
        }
    }

    impl<T: Send> FromParallelIterator<T> for Vec<T> {
        /// Completion order (rayon keeps index order for indexed sources; mahf never collects
        /// into a `Vec`, this exists for the harness' own tests).
        fn from_par_iter<I: ParallelIterator<Item = T>>(iter: I) -> Self {
            let out = std::sync::Mutex::new(Vec::new());
            iter.drive(|x| {
                out.lock().unwrap().push(x);
                true
            });
            out.into_inner().unwrap()
        }
    }

    impl<C, T, E> FromParallelIterator<Result<T, E>> for Result<C, E>
    where
        C: FromParallelIterator<T>,
        T: Send,
        E: Send,
    {
        /// Like rayon: stops handing out work after the first `Err` and returns one of the
        /// errors that occurred (here: the first in completion order).
        fn from_par_iter<I: ParallelIterator<Item = Result<T, E>>>(iter: I) -> Self {
            let first_err: std::sync::Mutex<Option<E>> = std::sync::Mutex::new(None);
            let oks: std::sync::Mutex<Vec<T>> = std::sync::Mutex::new(Vec::new());
            iter.drive(|r| match r {
                Ok(v) => {
                    oks.lock().unwrap().push(v);
                    true
                }
                Err(e) => {
                    let mut g = first_err.lock().unwrap();
                    if g.is_none() {
                        *g = Some(e);
                    }
                    false
                }
            });
            match first_err.into_inner().unwrap() {
                Some(e) => Err(e),
                None => Ok(C::from_par_iter(VecSource(oks.into_inner().unwrap()).into_par())),
            }
        }
    }

    /// Inline, already-computed items (used to finish a `Result<C, E>` collection).
    struct VecSource<T>(Vec<T>);
    impl<T: Send> VecSource<T> {
        fn into_par(self) -> Ready<T> {
            Ready(self.0)
        }
    }
    pub struct Ready<T>(Vec<T>);
    impl<T: Send> ParallelIterator for Ready<T> {
        type Item = T;
        fn drive<C>(self, consumer: C)
        where
            C: Fn(T) -> bool + Sync,
        {
            for x in self.0 {
                if !consumer(x) {
                    break;
                }
            }
        }
    }

    pub struct Map<I, F> {
        base: I,
        f: F,
    }

    impl<I, R, F> ParallelIterator for Map<I, F>
    where
        I: ParallelIterator,
        R: Send,
        F: Fn(I::Item) -> R + Sync + Send,
    {
        type Item = R;
        fn drive<C>(self, consumer: C)
        where
            C: Fn(R) -> bool + Sync,
        {
            let f = self.f;
            self.base.drive(|x| consumer(f(x)))
        }
    }

    // ---- slice source -------------------------------------------------------------------

    pub struct IterMut<'a, T: Send> {
        items: Vec<&'a mut T>,
    }

    struct QueueSource<T>(Vec<T>);
    impl<T: Send> Source for QueueSource<T> {
        type Item = T;
        fn next_item(&mut self) -> Option<T> {
            self.0.pop()
        }
    }

    impl<'a, T: Send> ParallelIterator for IterMut<'a, T> {
        type Item = &'a mut T;
        fn drive<C>(self, consumer: C)
        where
            C: Fn(&'a mut T) -> bool + Sync,
        {
            let mut items = self.items;
            // hand-out order: reversed so that pop() yields index order, optionally shuffled by
            // the schedule's own PRNG (rayon's splitting makes the start order arbitrary)
            items.reverse();
            if sim::workers() > 0 && sim::shuffle() && items.len() > 1 {
                let mut rng = shuttle::rand::thread_rng();
                for i in (1..items.len()).rev() {
                    let j = rng.gen_range(0..=i);
                    items.swap(i, j);
                }
            }
            run_pool(QueueSource(items), consumer)
        }
    }

    pub trait IntoParallelRefMutIterator<'data> {
        type Iter: ParallelIterator<Item = Self::Item>;
        type Item: Send + 'data;
        fn par_iter_mut(&'data mut self) -> Self::Iter;
    }

    impl<'data, T: Send + 'data> IntoParallelRefMutIterator<'data> for [T] {
        type Iter = IterMut<'data, T>;
        type Item = &'data mut T;
        fn par_iter_mut(&'data mut self) -> Self::Iter {
            IterMut {
                items: self.iter_mut().collect(),
            }
        }
    }

    impl<'data, T: Send + 'data> IntoParallelRefMutIterator<'data> for Vec<T> {
        type Iter = IterMut<'data, T>;
        type Item = &'data mut T;
        fn par_iter_mut(&'data mut self) -> Self::Iter {
            IterMut {
                items: self.iter_mut().collect(),
            }
        }
    }

    // ---- bridge source ------------------------------------------------------------------

    pub struct IterBridge<I> {
        iter: I,
    }

    impl<I> Source for IterBridge<I>
    where
        I: Iterator + Send,
        I::Item: Send,
    {
        type Item = I::Item;
        fn next_item(&mut self) -> Option<I::Item> {
            self.iter.next()
        }
    }

    impl<I> ParallelIterator for IterBridge<I>
    where
        I: Iterator + Send,
        I::Item: Send,
    {
        type Item = I::Item;
        fn drive<C>(self, consumer: C)
        where
            C: Fn(I::Item) -> bool + Sync,
        {
            run_pool(self, consumer)
        }
    }

    pub trait ParallelBridge: Sized {
        fn par_bridge(self) -> IterBridge<Self>;
    }

    impl<T> ParallelBridge for T
    where
        T: Iterator + Send,
        T::Item: Send,
    {
        fn par_bridge(self) -> IterBridge<Self> {
            IterBridge { iter: self }
        }
    }
}

pub mod prelude {
    pub use crate::iter::{
        FromParallelIterator, IntoParallelRefMutIterator, ParallelBridge, ParallelIterator,
    };
}
