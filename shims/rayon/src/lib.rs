//! Simulated worker pool standing in for `rayon` (see /verif/DESIGN.md §2.3).
//!
//! mahf itself uses `slice.par_iter_mut().for_each(..)` and
//! `iter.par_bridge().map(..).collect::<Result<(), E>>()`. The shim covers a wider part of
//! rayon's surface (indexed sources and adaptors, the common consumers, `join`, `scope`,
//! `ThreadPoolBuilder`), so that a change to mahf that uses more of rayon still builds against
//! the simulator instead of turning every check into a build error.
//!
//! Inside a simulated run (`sim::configure(workers >= 1)` on the OS thread that drives the
//! shuttle `Runner`) every parallel call runs its items on `workers` scoped **shuttle** threads
//! that pull from a shared queue; which worker runs when is decided by shuttle's seeded
//! scheduler, the hand-out order of indexed items by `shuttle::rand` (part of the schedule).
//! Outside a simulated run (`workers == 0`, the default) items are processed inline, in order.
//!
//! Faithfulness: results that rayon delivers in index order (`collect` into a `Vec` from an
//! indexed source, `reduce`/`sum`/`fold` operand order) are delivered in index order here too;
//! what rayon leaves to its scheduler (which worker runs which item when, how a reduction is
//! split into sub-ranges, the order in which `par_bridge` items complete) is decided by the
//! schedule's PRNG.

pub mod sim {
    use std::cell::Cell;

    thread_local! {
        static WORKERS: Cell<usize> = const { Cell::new(0) };
        static SHUFFLE: Cell<bool> = const { Cell::new(true) };
        static PAR_CALLS: Cell<u64> = const { Cell::new(0) };
        static ITEMS: Cell<u64> = const { Cell::new(0) };
    }

    /// Number of simulated workers for parallel calls issued from this OS thread
    /// (0 = inline sequential execution, no shuttle involvement).
    pub fn configure(workers: usize, shuffle: bool) {
        WORKERS.with(|w| w.set(workers));
        SHUFFLE.with(|s| s.set(shuffle));
    }

    pub fn workers() -> usize {
        WORKERS.with(|w| w.get())
    }

    pub(crate) fn shuffle() -> bool {
        SHUFFLE.with(|s| s.get())
    }

    pub(crate) fn note_call(items: u64) {
        PAR_CALLS.with(|c| c.set(c.get() + 1));
        ITEMS.with(|c| c.set(c.get() + items));
    }

    /// (parallel calls, items processed) since the last reset, on this OS thread.
    pub fn take_stats() -> (u64, u64) {
        let r = (PAR_CALLS.with(|c| c.get()), ITEMS.with(|c| c.get()));
        PAR_CALLS.with(|c| c.set(0));
        ITEMS.with(|c| c.set(0));
        r
    }
}

/// A scheduling point of the simulated pool (no-op outside a simulated run).
fn preempt() {
    if sim::workers() > 0 {
        shuttle::thread::sleep(std::time::Duration::from_millis(0));
    }
}

pub mod iter {
    use super::sim;
    use shuttle::rand::Rng;
    use std::sync::atomic::{AtomicBool, Ordering};
    use std::sync::Mutex as StdMutex;

    /// Pull-based source of `(index, item)` pairs shared by the simulated workers.
    pub trait Source: Send {
        type Item: Send;
        fn next_item(&mut self) -> Option<(usize, Self::Item)>;
    }

    /// Run `consumer` over all items of `source`. `consumer` returns `false` to ask the pool to
    /// stop handing out further items (used for short-circuiting consumers).
    pub(crate) fn run_pool<S, C>(mut source: S, consumer: C)
    where
        S: Source,
        C: Fn(usize, S::Item) -> bool + Sync,
    {
        let k = sim::workers();
        let mut n = 0u64;
        if k == 0 {
            while let Some((i, item)) = source.next_item() {
                n += 1;
                if !consumer(i, item) {
                    break;
                }
            }
            sim::note_call(n);
            return;
        }
        let queue = shuttle::sync::Mutex::new((source, 0u64));
        let stop = AtomicBool::new(false);
        shuttle::thread::scope(|scope| {
            for _ in 0..k {
                scope.spawn(|| loop {
                    if stop.load(Ordering::SeqCst) {
                        break;
                    }
                    let item = {
                        let mut q = queue.lock().unwrap();
                        let it = q.0.next_item();
                        if it.is_some() {
                            q.1 += 1;
                        }
                        it
                    };
                    match item {
                        Some((i, item)) => {
                            // a worker can be preempted between taking an item and starting on
                            // it, and again before it comes back for the next one
                            shuttle::thread::sleep(std::time::Duration::from_millis(0));
                            if !consumer(i, item) {
                                stop.store(true, Ordering::SeqCst);
                            }
                            shuttle::thread::sleep(std::time::Duration::from_millis(0));
                        }
                        None => break,
                    }
                });
            }
        });
        let n = queue.into_inner().unwrap().1;
        sim::note_call(n);
    }

    /// Contiguous chunk boundaries for a reduction over `n` operands: where rayon splits the
    /// index range is up to its scheduler, so inside a simulated run the schedule's PRNG decides.
    fn split_points(n: usize) -> Vec<usize> {
        let mut cuts = vec![0, n];
        if sim::workers() > 0 && n > 1 {
            let mut rng = shuttle::rand::thread_rng();
            let k = rng.gen_range(0..sim::workers().min(n));
            for _ in 0..k {
                cuts.push(rng.gen_range(1..n));
            }
        }
        cuts.sort_unstable();
        cuts.dedup();
        cuts
    }

    pub trait ParallelIterator: Sized + Send {
        type Item: Send;

        /// Calls `consumer(index, item)` for every item on the (simulated) pool; the index is the
        /// item's position in the source (arrival order for bridged iterators).
        #[doc(hidden)]
        fn drive<C>(self, consumer: C)
        where
            C: Fn(usize, Self::Item) -> bool + Sync;

        /// Whether the items have a position rayon preserves (indexed sources and adaptors over
        /// them); for bridged iterators rayon guarantees no order.
        #[doc(hidden)]
        const ORDERED: bool;

        /// All items, each computed on the pool: in index order for ordered iterators, in
        /// completion order otherwise.
        #[doc(hidden)]
        fn run_to_vec(self) -> Vec<Self::Item> {
            let out: StdMutex<Vec<(usize, Self::Item)>> = StdMutex::new(Vec::new());
            self.drive(|i, x| {
                out.lock().unwrap().push((i, x));
                true
            });
            let mut v = out.into_inner().unwrap();
            if Self::ORDERED {
                v.sort_by_key(|(i, _)| *i);
            }
            v.into_iter().map(|(_, x)| x).collect()
        }

        fn for_each<F>(self, f: F)
        where
            F: Fn(Self::Item) + Sync + Send,
        {
            self.drive(|_, x| {
                f(x);
                true
            })
        }

        /// Every item sees its own clone of `init` (rayon clones once per split).
        fn for_each_with<T, F>(self, init: T, f: F)
        where
            T: Send + Clone + Sync,
            F: Fn(&mut T, Self::Item) + Sync + Send,
        {
            self.drive(|_, x| {
                let mut t = init.clone();
                f(&mut t, x);
                true
            })
        }

        fn for_each_init<T, INIT, F>(self, init: INIT, f: F)
        where
            INIT: Fn() -> T + Sync + Send,
            F: Fn(&mut T, Self::Item) + Sync + Send,
        {
            self.drive(|_, x| {
                let mut t = init();
                f(&mut t, x);
                true
            })
        }

        /// Stops handing out work after the first `Err` and returns one of the errors that
        /// occurred (the first in completion order).
        fn try_for_each<F, E>(self, f: F) -> Result<(), E>
        where
            F: Fn(Self::Item) -> Result<(), E> + Sync + Send,
            E: Send,
        {
            let first: StdMutex<Option<E>> = StdMutex::new(None);
            self.drive(|_, x| match f(x) {
                Ok(()) => true,
                Err(e) => {
                    let mut g = first.lock().unwrap();
                    if g.is_none() {
                        *g = Some(e);
                    }
                    false
                }
            });
            match first.into_inner().unwrap() {
                Some(e) => Err(e),
                None => Ok(()),
            }
        }

        fn map<R, F>(self, f: F) -> Map<Self, F>
        where
            R: Send,
            F: Fn(Self::Item) -> R + Sync + Send,
        {
            Map { base: self, f }
        }

        fn map_with<T, R, F>(self, init: T, f: F) -> MapWith<Self, T, F>
        where
            T: Send + Clone + Sync,
            R: Send,
            F: Fn(&mut T, Self::Item) -> R + Sync + Send,
        {
            MapWith { base: self, init, f }
        }

        fn filter<F>(self, f: F) -> Filter<Self, F>
        where
            F: Fn(&Self::Item) -> bool + Sync + Send,
        {
            Filter { base: self, f }
        }

        fn filter_map<R, F>(self, f: F) -> FilterMap<Self, F>
        where
            R: Send,
            F: Fn(Self::Item) -> Option<R> + Sync + Send,
        {
            FilterMap { base: self, f }
        }

        fn inspect<F>(self, f: F) -> Map<Self, Box<dyn Fn(Self::Item) -> Self::Item + Sync + Send>>
        where
            F: Fn(&Self::Item) + Sync + Send + 'static,
            Self::Item: 'static,
        {
            Map {
                base: self,
                f: Box::new(move |x| {
                    f(&x);
                    x
                }),
            }
        }

        fn cloned<'a, T>(self) -> Map<Self, fn(&'a T) -> T>
        where
            T: 'a + Clone + Send + Sync,
            Self: ParallelIterator<Item = &'a T>,
        {
            Map { base: self, f: |x: &'a T| x.clone() }
        }

        fn copied<'a, T>(self) -> Map<Self, fn(&'a T) -> T>
        where
            T: 'a + Copy + Send + Sync,
            Self: ParallelIterator<Item = &'a T>,
        {
            Map { base: self, f: |x: &'a T| *x }
        }

        fn collect<C>(self) -> C
        where
            C: FromParallelIterator<Self::Item>,
        {
            C::from_par_iter(self)
        }

        fn count(self) -> usize {
            self.run_to_vec().len()
        }

        /// Operands in index order; how the range is split into sub-ranges (each folded from
        /// `identity()`) is decided by the schedule.
        fn reduce<OP, ID>(self, identity: ID, op: OP) -> Self::Item
        where
            OP: Fn(Self::Item, Self::Item) -> Self::Item + Sync + Send,
            ID: Fn() -> Self::Item + Sync + Send,
        {
            let items = self.run_to_vec();
            let cuts = split_points(items.len());
            let mut it = items.into_iter();
            let mut total = identity();
            for w in cuts.windows(2) {
                let mut acc = identity();
                for _ in w[0]..w[1] {
                    acc = op(acc, it.next().expect("item"));
                }
                total = op(total, acc);
            }
            total
        }

        fn reduce_with<OP>(self, op: OP) -> Option<Self::Item>
        where
            OP: Fn(Self::Item, Self::Item) -> Self::Item + Sync + Send,
        {
            let items = self.run_to_vec();
            let cuts = split_points(items.len());
            let mut it = items.into_iter();
            let mut total: Option<Self::Item> = None;
            for w in cuts.windows(2) {
                let mut acc: Option<Self::Item> = None;
                for _ in w[0]..w[1] {
                    let x = it.next().expect("item");
                    acc = Some(match acc {
                        None => x,
                        Some(a) => op(a, x),
                    });
                }
                total = match (total, acc) {
                    (None, a) => a,
                    (t, None) => t,
                    (Some(t), Some(a)) => Some(op(t, a)),
                };
            }
            total
        }

        /// One accumulator per sub-range (split by the schedule), in index order.
        fn fold<T, ID, F>(self, identity: ID, fold_op: F) -> Ready<T>
        where
            T: Send,
            ID: Fn() -> T + Sync + Send,
            F: Fn(T, Self::Item) -> T + Sync + Send,
        {
            let items = self.run_to_vec();
            let cuts = split_points(items.len());
            let mut it = items.into_iter();
            let mut out = Vec::new();
            for w in cuts.windows(2) {
                let mut acc = identity();
                for _ in w[0]..w[1] {
                    acc = fold_op(acc, it.next().expect("item"));
                }
                out.push(acc);
            }
            if out.is_empty() {
                out.push(identity());
            }
            Ready(out)
        }

        fn sum<S>(self) -> S
        where
            S: Send + std::iter::Sum<Self::Item> + std::iter::Sum<S>,
        {
            let items = self.run_to_vec();
            let cuts = split_points(items.len());
            let mut it = items.into_iter();
            let mut parts: Vec<S> = Vec::new();
            for w in cuts.windows(2) {
                parts.push((&mut it).take(w[1] - w[0]).sum());
            }
            parts.into_iter().sum()
        }

        fn min_by<F>(self, f: F) -> Option<Self::Item>
        where
            F: Fn(&Self::Item, &Self::Item) -> std::cmp::Ordering + Sync + Send,
        {
            self.run_to_vec().into_iter().min_by(|a, b| f(a, b))
        }

        fn max_by<F>(self, f: F) -> Option<Self::Item>
        where
            F: Fn(&Self::Item, &Self::Item) -> std::cmp::Ordering + Sync + Send,
        {
            self.run_to_vec().into_iter().max_by(|a, b| f(a, b))
        }

        fn min_by_key<K: Ord + Send, F>(self, f: F) -> Option<Self::Item>
        where
            F: Fn(&Self::Item) -> K + Sync + Send,
        {
            self.run_to_vec().into_iter().min_by_key(|a| f(a))
        }

        fn max_by_key<K: Ord + Send, F>(self, f: F) -> Option<Self::Item>
        where
            F: Fn(&Self::Item) -> K + Sync + Send,
        {
            self.run_to_vec().into_iter().max_by_key(|a| f(a))
        }

        fn any<F>(self, f: F) -> bool
        where
            F: Fn(Self::Item) -> bool + Sync + Send,
        {
            let hit = AtomicBool::new(false);
            self.drive(|_, x| {
                if f(x) {
                    hit.store(true, Ordering::SeqCst);
                    false
                } else {
                    true
                }
            });
            hit.load(Ordering::SeqCst)
        }

        fn all<F>(self, f: F) -> bool
        where
            F: Fn(Self::Item) -> bool + Sync + Send,
        {
            !self.any(move |x| !f(x))
        }

        /// Some matching item: which one is up to the schedule.
        fn find_any<F>(self, f: F) -> Option<Self::Item>
        where
            F: Fn(&Self::Item) -> bool + Sync + Send,
        {
            let found: StdMutex<Option<Self::Item>> = StdMutex::new(None);
            self.drive(|_, x| {
                if f(&x) {
                    let mut g = found.lock().unwrap();
                    if g.is_none() {
                        *g = Some(x);
                    }
                    false
                } else {
                    true
                }
            });
            found.into_inner().unwrap()
        }

        fn find_first<F>(self, f: F) -> Option<Self::Item>
        where
            F: Fn(&Self::Item) -> bool + Sync + Send,
        {
            self.run_to_vec().into_iter().find(|x| f(x))
        }
    }

    /// Sources and adaptors whose items have a fixed position.
    pub trait IndexedParallelIterator: ParallelIterator {
        fn len(&self) -> usize;

        fn enumerate(self) -> Enumerate<Self> {
            Enumerate { base: self }
        }

        fn zip<Z>(self, other: Z) -> Zip<Self, Z::Iter>
        where
            Z: IntoParallelIterator,
            Z::Iter: IndexedParallelIterator,
        {
            Zip { a: self, b: other.into_par_iter() }
        }

        fn with_min_len(self, _min: usize) -> Self {
            self
        }

        fn with_max_len(self, _max: usize) -> Self {
            self
        }

        fn collect_into_vec(self, target: &mut Vec<Self::Item>) {
            *target = self.run_to_vec();
        }
    }

    pub trait FromParallelIterator<T: Send>: Sized {
        fn from_par_iter<I: ParallelIterator<Item = T>>(iter: I) -> Self;
    }

    impl FromParallelIterator<()> for () {
        fn from_par_iter<I: ParallelIterator<Item = ()>>(iter: I) -> Self {
            iter.drive(|_, ()| true)
        }
    }

    impl<T: Send> FromParallelIterator<T> for Vec<T> {
        /// Index order, like rayon for indexed sources (for bridged iterators the index is the
        /// order in which the items were pulled from the underlying iterator).
        fn from_par_iter<I: ParallelIterator<Item = T>>(iter: I) -> Self {
            iter.run_to_vec()
        }
    }

    impl<T: Send> FromParallelIterator<T> for std::collections::VecDeque<T> {
        fn from_par_iter<I: ParallelIterator<Item = T>>(iter: I) -> Self {
            iter.run_to_vec().into()
        }
    }

    impl<K: Send + Eq + std::hash::Hash, V: Send> FromParallelIterator<(K, V)> for std::collections::HashMap<K, V> {
        fn from_par_iter<I: ParallelIterator<Item = (K, V)>>(iter: I) -> Self {
            iter.run_to_vec().into_iter().collect()
        }
    }

    impl<K: Send + Ord, V: Send> FromParallelIterator<(K, V)> for std::collections::BTreeMap<K, V> {
        fn from_par_iter<I: ParallelIterator<Item = (K, V)>>(iter: I) -> Self {
            iter.run_to_vec().into_iter().collect()
        }
    }

    impl<T: Send + Eq + std::hash::Hash> FromParallelIterator<T> for std::collections::HashSet<T> {
        fn from_par_iter<I: ParallelIterator<Item = T>>(iter: I) -> Self {
            iter.run_to_vec().into_iter().collect()
        }
    }

    impl<T: Send + Ord> FromParallelIterator<T> for std::collections::BTreeSet<T> {
        fn from_par_iter<I: ParallelIterator<Item = T>>(iter: I) -> Self {
            iter.run_to_vec().into_iter().collect()
        }
    }

    impl FromParallelIterator<String> for String {
        fn from_par_iter<I: ParallelIterator<Item = String>>(iter: I) -> Self {
            iter.run_to_vec().concat()
        }
    }

    impl<C, T, E> FromParallelIterator<Result<T, E>> for Result<C, E>
    where
        C: FromParallelIterator<T>,
        T: Send,
        E: Send,
    {
        /// Like rayon: stops handing out work after the first `Err` and returns one of the
        /// errors that occurred (here: the first in completion order).
        fn from_par_iter<I: ParallelIterator<Item = Result<T, E>>>(iter: I) -> Self {
            let first_err: StdMutex<Option<E>> = StdMutex::new(None);
            let oks: StdMutex<Vec<(usize, T)>> = StdMutex::new(Vec::new());
            iter.drive(|i, r| match r {
                Ok(v) => {
                    oks.lock().unwrap().push((i, v));
                    true
                }
                Err(e) => {
                    let mut g = first_err.lock().unwrap();
                    if g.is_none() {
                        *g = Some(e);
                    }
                    false
                }
            });
            match first_err.into_inner().unwrap() {
                Some(e) => Err(e),
                None => {
                    let mut v = oks.into_inner().unwrap();
                    if I::ORDERED {
                        v.sort_by_key(|(i, _)| *i);
                    }
                    Ok(C::from_par_iter(Ready(v.into_iter().map(|(_, x)| x).collect())))
                }
            }
        }
    }

    impl<C, T> FromParallelIterator<Option<T>> for Option<C>
    where
        C: FromParallelIterator<T>,
        T: Send,
    {
        fn from_par_iter<I: ParallelIterator<Item = Option<T>>>(iter: I) -> Self {
            let r: Result<C, ()> = Result::from_par_iter(iter.map(|o| o.ok_or(())));
            r.ok()
        }
    }

    /// Already computed items, delivered inline in order.
    pub struct Ready<T>(pub(crate) Vec<T>);
    impl<T: Send> ParallelIterator for Ready<T> {
        type Item = T;
        const ORDERED: bool = true;
        fn drive<C>(self, consumer: C)
        where
            C: Fn(usize, T) -> bool + Sync,
        {
            for (i, x) in self.0.into_iter().enumerate() {
                if !consumer(i, x) {
                    break;
                }
            }
        }
    }
    impl<T: Send> IndexedParallelIterator for Ready<T> {
        fn len(&self) -> usize {
            self.0.len()
        }
    }

    // ---- adaptors -----------------------------------------------------------------------

    pub struct Map<I, F> {
        base: I,
        f: F,
    }

    impl<I, R, F> ParallelIterator for Map<I, F>
    where
        I: ParallelIterator,
        R: Send,
        F: Fn(I::Item) -> R + Sync + Send,
    {
        type Item = R;
        const ORDERED: bool = I::ORDERED;
        fn drive<C>(self, consumer: C)
        where
            C: Fn(usize, R) -> bool + Sync,
        {
            let f = self.f;
            self.base.drive(|i, x| consumer(i, f(x)))
        }
    }

    impl<I, R, F> IndexedParallelIterator for Map<I, F>
    where
        I: IndexedParallelIterator,
        R: Send,
        F: Fn(I::Item) -> R + Sync + Send,
    {
        fn len(&self) -> usize {
            self.base.len()
        }
    }

    pub struct MapWith<I, T, F> {
        base: I,
        init: T,
        f: F,
    }

    impl<I, T, R, F> ParallelIterator for MapWith<I, T, F>
    where
        I: ParallelIterator,
        T: Send + Clone + Sync,
        R: Send,
        F: Fn(&mut T, I::Item) -> R + Sync + Send,
    {
        type Item = R;
        const ORDERED: bool = I::ORDERED;
        fn drive<C>(self, consumer: C)
        where
            C: Fn(usize, R) -> bool + Sync,
        {
            let (f, init) = (self.f, self.init);
            self.base.drive(|i, x| {
                let mut t = init.clone();
                consumer(i, f(&mut t, x))
            })
        }
    }

    pub struct Filter<I, F> {
        base: I,
        f: F,
    }

    impl<I, F> ParallelIterator for Filter<I, F>
    where
        I: ParallelIterator,
        F: Fn(&I::Item) -> bool + Sync + Send,
    {
        type Item = I::Item;
        const ORDERED: bool = I::ORDERED;
        fn drive<C>(self, consumer: C)
        where
            C: Fn(usize, I::Item) -> bool + Sync,
        {
            let f = self.f;
            self.base.drive(|i, x| if f(&x) { consumer(i, x) } else { true })
        }
    }

    pub struct FilterMap<I, F> {
        base: I,
        f: F,
    }

    impl<I, R, F> ParallelIterator for FilterMap<I, F>
    where
        I: ParallelIterator,
        R: Send,
        F: Fn(I::Item) -> Option<R> + Sync + Send,
    {
        type Item = R;
        const ORDERED: bool = I::ORDERED;
        fn drive<C>(self, consumer: C)
        where
            C: Fn(usize, R) -> bool + Sync,
        {
            let f = self.f;
            self.base.drive(|i, x| match f(x) {
                Some(r) => consumer(i, r),
                None => true,
            })
        }
    }

    pub struct Enumerate<I> {
        base: I,
    }

    impl<I: IndexedParallelIterator> ParallelIterator for Enumerate<I> {
        type Item = (usize, I::Item);
        const ORDERED: bool = true;
        fn drive<C>(self, consumer: C)
        where
            C: Fn(usize, (usize, I::Item)) -> bool + Sync,
        {
            self.base.drive(|i, x| consumer(i, (i, x)))
        }
    }

    impl<I: IndexedParallelIterator> IndexedParallelIterator for Enumerate<I> {
        fn len(&self) -> usize {
            self.base.len()
        }
    }

    pub struct Zip<A, B> {
        a: A,
        b: B,
    }

    impl<A, B> ParallelIterator for Zip<A, B>
    where
        A: IndexedParallelIterator,
        B: IndexedParallelIterator,
    {
        type Item = (A::Item, B::Item);
        const ORDERED: bool = true;
        fn drive<C>(self, consumer: C)
        where
            C: Fn(usize, (A::Item, B::Item)) -> bool + Sync,
        {
            // the second operand is materialised first (on the pool), then paired by index
            let n = self.a.len().min(self.b.len());
            let bs: Vec<StdMutex<Option<B::Item>>> = self.b.run_to_vec().into_iter().map(|x| StdMutex::new(Some(x))).collect();
            self.a.drive(|i, a| {
                if i >= n {
                    return true;
                }
                match bs[i].lock().unwrap().take() {
                    Some(b) => consumer(i, (a, b)),
                    None => true,
                }
            })
        }
    }

    impl<A, B> IndexedParallelIterator for Zip<A, B>
    where
        A: IndexedParallelIterator,
        B: IndexedParallelIterator,
    {
        fn len(&self) -> usize {
            self.a.len().min(self.b.len())
        }
    }

    // ---- indexed sources ----------------------------------------------------------------

    /// An indexed source owning its items (references for `par_iter` / `par_iter_mut`).
    pub struct VecIter<T: Send> {
        items: Vec<T>,
    }

    pub type IterMut<'a, T> = VecIter<&'a mut T>;
    pub type Iter<'a, T> = VecIter<&'a T>;

    struct QueueSource<T>(Vec<(usize, T)>);
    impl<T: Send> Source for QueueSource<T> {
        type Item = T;
        fn next_item(&mut self) -> Option<(usize, T)> {
            self.0.pop()
        }
    }

    impl<T: Send> ParallelIterator for VecIter<T> {
        type Item = T;
        const ORDERED: bool = true;
        fn drive<C>(self, consumer: C)
        where
            C: Fn(usize, T) -> bool + Sync,
        {
            let mut items: Vec<(usize, T)> = self.items.into_iter().enumerate().collect();
            // hand-out order: reversed so that pop() yields index order, optionally shuffled by
            // the schedule's own PRNG (rayon's splitting makes the start order arbitrary)
            items.reverse();
            if sim::workers() > 0 && sim::shuffle() && items.len() > 1 {
                let mut rng = shuttle::rand::thread_rng();
                for i in (1..items.len()).rev() {
                    let j = rng.gen_range(0..=i);
                    items.swap(i, j);
                }
            }
            run_pool(QueueSource(items), consumer)
        }
    }

    impl<T: Send> IndexedParallelIterator for VecIter<T> {
        fn len(&self) -> usize {
            self.items.len()
        }
    }

    pub trait IntoParallelIterator {
        type Iter: ParallelIterator<Item = Self::Item>;
        type Item: Send;
        fn into_par_iter(self) -> Self::Iter;
    }

    impl<I: ParallelIterator> IntoParallelIterator for I {
        type Iter = I;
        type Item = I::Item;
        fn into_par_iter(self) -> I {
            self
        }
    }

    impl<T: Send> IntoParallelIterator for Vec<T> {
        type Iter = VecIter<T>;
        type Item = T;
        fn into_par_iter(self) -> VecIter<T> {
            VecIter { items: self }
        }
    }

    impl<'a, T: Sync + 'a> IntoParallelIterator for &'a Vec<T> {
        type Iter = VecIter<&'a T>;
        type Item = &'a T;
        fn into_par_iter(self) -> Self::Iter {
            VecIter { items: self.iter().collect() }
        }
    }

    impl<'a, T: Sync + 'a> IntoParallelIterator for &'a [T] {
        type Iter = VecIter<&'a T>;
        type Item = &'a T;
        fn into_par_iter(self) -> Self::Iter {
            VecIter { items: self.iter().collect() }
        }
    }

    impl<'a, T: Send + 'a> IntoParallelIterator for &'a mut Vec<T> {
        type Iter = VecIter<&'a mut T>;
        type Item = &'a mut T;
        fn into_par_iter(self) -> Self::Iter {
            VecIter { items: self.iter_mut().collect() }
        }
    }

    impl<'a, T: Send + 'a> IntoParallelIterator for &'a mut [T] {
        type Iter = VecIter<&'a mut T>;
        type Item = &'a mut T;
        fn into_par_iter(self) -> Self::Iter {
            VecIter { items: self.iter_mut().collect() }
        }
    }

    impl<T: Send> IntoParallelIterator for Option<T> {
        type Iter = VecIter<T>;
        type Item = T;
        fn into_par_iter(self) -> VecIter<T> {
            VecIter { items: self.into_iter().collect() }
        }
    }

    macro_rules! range_source {
        ($($t:ty),*) => {$(
            impl IntoParallelIterator for std::ops::Range<$t> {
                type Iter = VecIter<$t>;
                type Item = $t;
                fn into_par_iter(self) -> VecIter<$t> {
                    VecIter { items: self.collect() }
                }
            }
            impl IntoParallelIterator for std::ops::RangeInclusive<$t> {
                type Iter = VecIter<$t>;
                type Item = $t;
                fn into_par_iter(self) -> VecIter<$t> {
                    VecIter { items: self.collect() }
                }
            }
        )*};
    }
    range_source!(usize, u64, u32, u16, u8, isize, i64, i32, i16, i8);

    pub trait IntoParallelRefIterator<'data> {
        type Iter: ParallelIterator<Item = Self::Item>;
        type Item: Send + 'data;
        fn par_iter(&'data self) -> Self::Iter;
    }

    impl<'data, I: 'data + ?Sized> IntoParallelRefIterator<'data> for I
    where
        &'data I: IntoParallelIterator,
    {
        type Iter = <&'data I as IntoParallelIterator>::Iter;
        type Item = <&'data I as IntoParallelIterator>::Item;
        fn par_iter(&'data self) -> Self::Iter {
            self.into_par_iter()
        }
    }

    pub trait IntoParallelRefMutIterator<'data> {
        type Iter: ParallelIterator<Item = Self::Item>;
        type Item: Send + 'data;
        fn par_iter_mut(&'data mut self) -> Self::Iter;
    }

    impl<'data, I: 'data + ?Sized> IntoParallelRefMutIterator<'data> for I
    where
        &'data mut I: IntoParallelIterator,
    {
        type Iter = <&'data mut I as IntoParallelIterator>::Iter;
        type Item = <&'data mut I as IntoParallelIterator>::Item;
        fn par_iter_mut(&'data mut self) -> Self::Iter {
            self.into_par_iter()
        }
    }

    pub(crate) fn vec_iter<T: Send>(items: Vec<T>) -> VecIter<T> {
        VecIter { items }
    }

    // ---- bridge source ------------------------------------------------------------------

    pub struct IterBridge<I> {
        iter: I,
        pulled: usize,
    }

    impl<I> Source for IterBridge<I>
    where
        I: Iterator + Send,
        I::Item: Send,
    {
        type Item = I::Item;
        fn next_item(&mut self) -> Option<(usize, I::Item)> {
            let x = self.iter.next()?;
            let i = self.pulled;
            self.pulled += 1;
            Some((i, x))
        }
    }

    impl<I> ParallelIterator for IterBridge<I>
    where
        I: Iterator + Send,
        I::Item: Send,
    {
        type Item = I::Item;
        const ORDERED: bool = false;
        fn drive<C>(self, consumer: C)
        where
            C: Fn(usize, I::Item) -> bool + Sync,
        {
            run_pool(self, consumer)
        }

    }

    pub trait ParallelBridge: Sized {
        fn par_bridge(self) -> IterBridge<Self>;
    }

    impl<T> ParallelBridge for T
    where
        T: Iterator + Send,
        T::Item: Send,
    {
        fn par_bridge(self) -> IterBridge<Self> {
            IterBridge { iter: self, pulled: 0 }
        }
    }
}

pub mod slice {
    use crate::iter::{vec_iter, VecIter};

    pub trait ParallelSlice<T: Sync> {
        fn as_parallel_slice(&self) -> &[T];

        fn par_chunks(&self, chunk_size: usize) -> VecIter<&[T]> {
            assert!(chunk_size != 0, "chunk_size must not be zero");
            vec_iter(self.as_parallel_slice().chunks(chunk_size).collect())
        }

        fn par_windows(&self, window_size: usize) -> VecIter<&[T]> {
            vec_iter(self.as_parallel_slice().windows(window_size).collect())
        }
    }

    impl<T: Sync> ParallelSlice<T> for [T] {
        fn as_parallel_slice(&self) -> &[T] {
            self
        }
    }

    pub trait ParallelSliceMut<T: Send> {
        fn as_parallel_slice_mut(&mut self) -> &mut [T];

        fn par_chunks_mut(&mut self, chunk_size: usize) -> VecIter<&mut [T]> {
            assert!(chunk_size != 0, "chunk_size must not be zero");
            vec_iter(self.as_parallel_slice_mut().chunks_mut(chunk_size).collect())
        }

        fn par_sort(&mut self)
        where
            T: Ord,
        {
            self.as_parallel_slice_mut().sort()
        }

        fn par_sort_by<F: Fn(&T, &T) -> std::cmp::Ordering + Sync>(&mut self, f: F) {
            self.as_parallel_slice_mut().sort_by(|a, b| f(a, b))
        }

        fn par_sort_by_key<K: Ord, F: Fn(&T) -> K + Sync>(&mut self, f: F) {
            self.as_parallel_slice_mut().sort_by_key(|a| f(a))
        }

        fn par_sort_unstable(&mut self)
        where
            T: Ord,
        {
            self.as_parallel_slice_mut().sort_unstable()
        }

        fn par_sort_unstable_by<F: Fn(&T, &T) -> std::cmp::Ordering + Sync>(&mut self, f: F) {
            self.as_parallel_slice_mut().sort_unstable_by(|a, b| f(a, b))
        }

        fn par_sort_unstable_by_key<K: Ord, F: Fn(&T) -> K + Sync>(&mut self, f: F) {
            self.as_parallel_slice_mut().sort_unstable_by_key(|a| f(a))
        }
    }

    impl<T: Send> ParallelSliceMut<T> for [T] {
        fn as_parallel_slice_mut(&mut self) -> &mut [T] {
            self
        }
    }
}

// ---- free functions and pools ------------------------------------------------------------

/// Number of (simulated) worker threads.
pub fn current_num_threads() -> usize {
    sim::workers().max(1)
}

/// Index of the current worker: not modelled (callers get `None`, as outside a rayon pool).
pub fn current_thread_index() -> Option<usize> {
    None
}

/// Both closures, possibly concurrently: inside a simulated run `oper_b` runs on a second
/// simulated thread.
pub fn join<A, B, RA, RB>(oper_a: A, oper_b: B) -> (RA, RB)
where
    A: FnOnce() -> RA + Send,
    B: FnOnce() -> RB + Send,
    RA: Send,
    RB: Send,
{
    if sim::workers() <= 1 {
        let a = oper_a();
        preempt();
        let b = oper_b();
        return (a, b);
    }
    let mut rb = None;
    let mut ra = None;
    shuttle::thread::scope(|s| {
        s.spawn(|| {
            preempt();
            rb = Some(oper_b());
        });
        preempt();
        ra = Some(oper_a());
    });
    (ra.expect("join: first closure"), rb.expect("join: second closure"))
}

type Task<'scope> = Box<dyn FnOnce(&Scope<'scope>) + Send + 'scope>;

/// `rayon::scope`: spawned tasks run on the simulated pool in rounds (tasks spawned by tasks run
/// in the next round); all have finished when `scope` returns.
pub struct Scope<'scope> {
    tasks: std::sync::Mutex<Vec<Task<'scope>>>,
}

impl<'scope> Scope<'scope> {
    pub fn spawn<BODY>(&self, body: BODY)
    where
        BODY: FnOnce(&Scope<'scope>) + Send + 'scope,
    {
        self.tasks.lock().unwrap().push(Box::new(body));
    }
}

pub fn scope<'scope, OP, R>(op: OP) -> R
where
    OP: FnOnce(&Scope<'scope>) -> R + Send,
    R: Send,
{
    use iter::ParallelIterator;
    let sc = Scope { tasks: std::sync::Mutex::new(Vec::new()) };
    let r = op(&sc);
    loop {
        let round: Vec<Task<'scope>> = std::mem::take(&mut *sc.tasks.lock().unwrap());
        if round.is_empty() {
            break;
        }
        let cells: Vec<std::sync::Mutex<Option<Task<'scope>>>> = round.into_iter().map(|t| std::sync::Mutex::new(Some(t))).collect();
        let idx: Vec<usize> = (0..cells.len()).collect();
        iter::vec_iter(idx).for_each(|i| {
            if let Some(t) = cells[i].lock().unwrap().take() {
                t(&sc);
            }
        });
    }
    r
}

#[derive(Debug)]
pub struct ThreadPoolBuildError;

impl std::fmt::Display for ThreadPoolBuildError {
    fn fmt(&self, f: &mut std::fmt::Formatter<'_>) -> std::fmt::Result {
        write!(f, "thread pool build error")
    }
}

impl std::error::Error for ThreadPoolBuildError {}

#[derive(Default)]
pub struct ThreadPoolBuilder {
    threads: usize,
}

impl ThreadPoolBuilder {
    pub fn new() -> Self {
        Self::default()
    }
    pub fn num_threads(mut self, n: usize) -> Self {
        self.threads = n;
        self
    }
    pub fn thread_name<F: FnMut(usize) -> String + 'static>(self, _f: F) -> Self {
        self
    }
    pub fn stack_size(self, _s: usize) -> Self {
        self
    }
    pub fn build(self) -> Result<ThreadPool, ThreadPoolBuildError> {
        Ok(ThreadPool { threads: self.threads })
    }
    /// The simulated pool's size is decided by the simulator.
    pub fn build_global(self) -> Result<(), ThreadPoolBuildError> {
        Ok(())
    }
}

/// A pool of its own size: inside a simulated run parallel calls made under `install` use that
/// many simulated workers.
pub struct ThreadPool {
    threads: usize,
}

impl ThreadPool {
    pub fn install<OP, R>(&self, op: OP) -> R
    where
        OP: FnOnce() -> R + Send,
        R: Send,
    {
        let before = sim::workers();
        if before > 0 && self.threads > 0 {
            sim::configure(self.threads, true);
        }
        let r = op();
        if before > 0 {
            sim::configure(before, true);
        }
        r
    }
    pub fn current_num_threads(&self) -> usize {
        if self.threads > 0 {
            self.threads
        } else {
            current_num_threads()
        }
    }
    pub fn join<A, B, RA, RB>(&self, a: A, b: B) -> (RA, RB)
    where
        A: FnOnce() -> RA + Send,
        B: FnOnce() -> RB + Send,
        RA: Send,
        RB: Send,
    {
        self.install(|| join(a, b))
    }
    pub fn scope<'scope, OP, R>(&self, op: OP) -> R
    where
        OP: FnOnce(&Scope<'scope>) -> R + Send,
        R: Send,
    {
        self.install(|| scope(op))
    }
}

pub mod prelude {
    pub use crate::iter::{
        FromParallelIterator, IndexedParallelIterator, IntoParallelIterator, IntoParallelRefIterator, IntoParallelRefMutIterator, ParallelBridge, ParallelIterator,
    };
    pub use crate::slice::{ParallelSlice, ParallelSliceMut};
}
