//! Inert stand-in for `indicatif`: same API surface as mahf uses, no clock, no terminal.

use std::borrow::Cow;

#[derive(Clone, Debug, Default)]
pub struct ProgressBar;

#[derive(Clone, Debug, Default)]
pub struct ProgressStyle;

#[derive(Debug)]
pub struct TemplateError;

impl std::fmt::Display for TemplateError {
    fn fmt(&self, f: &mut std::fmt::Formatter<'_>) -> std::fmt::Result {
        f.write_str("template error")
    }
}

impl std::error::Error for TemplateError {}

impl ProgressStyle {
    pub fn with_template(_template: &str) -> Result<Self, TemplateError> {
        Ok(Self)
    }
    pub fn default_bar() -> Self {
        Self
    }
    pub fn default_spinner() -> Self {
        Self
    }
}

impl ProgressBar {
    pub fn new(_len: u64) -> Self {
        Self
    }
    pub fn new_spinner() -> Self {
        Self
    }
    pub fn hidden() -> Self {
        Self
    }
    pub fn with_message(self, _msg: impl Into<Cow<'static, str>>) -> Self {
        self
    }
    pub fn with_style(self, _style: ProgressStyle) -> Self {
        self
    }
    pub fn set_style(&self, _style: ProgressStyle) {}
    pub fn set_message(&self, _msg: impl Into<Cow<'static, str>>) {}
    pub fn inc(&self, _delta: u64) {}
    pub fn finish(&self) {}
}

#[cfg(feature = "rayon")]
pub trait ParallelProgressIterator: rayon::iter::ParallelIterator {
    fn progress_with(self, _bar: ProgressBar) -> Self {
        self
    }
    fn progress_count(self, _len: u64) -> Self {
        self
    }
}

#[cfg(feature = "rayon")]
impl<T: rayon::iter::ParallelIterator> ParallelProgressIterator for T {}
