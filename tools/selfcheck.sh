#!/bin/bash
# Determinism self-check of the simulator (verifies the harness, not mahf; not a manifest check):
# every check is executed in separate processes with the same VERIF_SEED at different harness
# thread counts and the per-batch run digests (order-independent hashes over every run's
# fingerprints, counters, steps and violations) are compared; a different seed must give different
# digests. Usage: tools/selfcheck.sh [scale]   (fraction of the quick budget, default 0.05)
scale="${1:-0.05}"
root=$(mktemp -d /tmp/verif-selfcheck.XXXXXX)
cp /verif/known_findings.json "$root/"
cd /verif/sim && cargo build --release --offline >/dev/null 2>&1 || { echo "build failed"; exit 2; }
ids=$(python3 -c "import json;print(' '.join(c['property_id'] for c in json.load(open('/verif/MANIFEST.json'))['checks']))")
fail=0
digests() { python3 -c "import json,sys;d=json.load(open('$root/evidence/$1.json'));print(' '.join(b['batch']+'='+b['run_digest'] for b in d['coverage']['batches']))"; }
for id in $ids; do
  declare -A seen=()
  ref=""
  for cfg in "1 16" "1 3" "1 1" ; do
    set -- $cfg
    VERIF_ROOT=$root VERIF_SEED=$1 VERIF_THREADS=$2 VERIF_RUNS_SCALE=$scale /verif/target/release/sim check $id quick >/dev/null 2>&1
    d=$(digests $id)
    if [ -z "$ref" ]; then ref="$d"; elif [ "$d" != "$ref" ]; then echo "NONDETERMINISM $id threads=$2: $d != $ref"; fail=1; fi
  done
  VERIF_ROOT=$root VERIF_SEED=2 VERIF_THREADS=16 VERIF_RUNS_SCALE=$scale /verif/target/release/sim check $id quick >/dev/null 2>&1
  d2=$(digests $id)
  if [ "$d2" == "$ref" ]; then echo "SEED-INSENSITIVE $id: seed 2 gives the same digests"; fail=1; fi
  echo "$id ok: $ref"
done
rm -rf "$root"
exit $fail
