#!/bin/bash
# Thread world (thorough tier of C05 C06 C08 C19): mahf's parallel paths on the REAL rayon under
# Miri's seeded scheduler (/verif/miri). One (scenario, workload seed, threads, Miri seed) tuple is
# one exactly repeatable execution; Miri also reports data races.
#   thread_world.sh run <ID> [workloads] [miri-seeds]   exit 0 held / 1 VIOLATION / 2 harness error / 3 not available
#   thread_world.sh replay <file>
set -u
ROOT="${VERIF_ROOT:-/verif}"
cd "$ROOT/miri" || exit 2
export CARGO_NET_OFFLINE=true
BASEFLAGS="-Zmiri-tree-borrows -Zmiri-ignore-leaks -Zmiri-permissive-provenance -Zmiri-preemption-rate=0.05"

available() {
    cargo +nightly miri --version >/dev/null 2>&1
}

run_one() { # scenario wseed threads miriflags -> output on stdout
    MIRIFLAGS="$4" cargo +nightly miri run --offline -- "$1" "$2" "$3" 2>&1
}

case "${1:-}" in
run)
    id="${2:?id}"; nwork="${3:-4}"; nseeds="${4:-16}"
    case "$id" in
        C19) scenarios="aco" ;;
        C05|C06) scenarios="ga eval" ;;
        C08|C16) scenarios="ga eval exp" ;;
        C15) scenarios="exp" ;;
        *) exit 0 ;;
    esac
    if ! available; then echo "thread world: cargo +nightly miri is not available here - skipped (coverage reduced, see evidence)"; exit 3; fi
    seed="${VERIF_SEED:-1}"
    start=$(date +%s)
    total=0; okc=0; summary=""
    for scenario in $scenarios; do
        flags="$BASEFLAGS"; w=$nwork; k=$nseeds
        if [ "$scenario" = eval ]; then
            # many evaluation calls per execution: half the workloads (threads 3 and 4)
            w=$(( (nwork + 1) / 2 ))
        fi
        if [ "$scenario" = exp ]; then
            # file I/O needs the real file system; an execution costs ~30 s of interpretation
            flags="$BASEFLAGS -Zmiri-disable-isolation"; w=$(( (nwork + 1) / 2 )); k=$(( (nseeds + 1) / 2 ))
        fi
        for i in $(seq 0 $((w-1))); do
            wseed=$((seed*1000+i)); threads=$((2 + i % 3))
            [ "$scenario" = eval ] && threads=$((4 - i % 2))
            out=$(run_one "$scenario" "$wseed" "$threads" "$flags -Zmiri-many-seeds=0..$k")
            n_ok=$(echo "$out" | grep -c 'THREAD-WORLD ok')
            total=$((total+k)); okc=$((okc+n_ok))
            fs=$(echo "$out" | grep -m1 'FAILING SEED' | sed 's/.*FAILING SEED: *//')
            if [ -n "$fs" ] || echo "$out" | grep -q -E 'THREAD-WORLD VIOLATION|Data race detected|Undefined Behavior'; then
                [ -z "$fs" ] && fs=0
                # the failing Miri seed alone: this is the replay, and where class and message come from
                rep=$(run_one "$scenario" "$wseed" "$threads" "$flags -Zmiri-seed=$fs")
                vio=$(echo "$rep" | grep -m1 -o 'THREAD-WORLD VIOLATION.*')
                race=$(echo "$rep" | grep -m1 -E 'Data race detected|Undefined Behavior')
                if [ -n "$vio" ]; then class=$(echo "$vio" | sed 's/.*class=\([^ ]*\).*/\1/'); msg="$vio";
                elif [ -n "$race" ]; then class="miri-data-race-or-undefined-behaviour"; msg="$race";
                else echo "harness error: thread world: Miri seed $fs of '$scenario $wseed $threads' failed in the sweep but not when run alone" >&2; exit 2; fi
                mkdir -p "$ROOT/replays"
                f="$ROOT/replays/$id-thread-world-$scenario-$wseed-$fs.json"
                python3 - "$f" "$id" "$scenario" "$wseed" "$threads" "$fs" "$class" "$msg" "$flags" <<'EOF2'
import json, sys
f, pid, sc, ws, th, ms, cl, msg, flags = sys.argv[1:]
json.dump({"engine": "thread-world", "property": pid, "scenario": sc, "workload_seed": int(ws), "threads": int(th), "miri_seed": int(ms), "miriflags": flags, "violation_class": cl, "message": msg}, open(f, "w"), indent=1)
EOF2
                echo "  thread world: $msg"
                echo "  violation class: thread-world $class"
                echo "VIOLATION property=$id replay=$f"
                exit 1
            fi
            if [ "$n_ok" -ne "$k" ]; then
                echo "harness error: thread world: $n_ok of $k executions of '$scenario $wseed $threads' reported ok and none reported a violation:" >&2
                echo "$out" | grep -E '^error' -A6 | head -30 >&2
                exit 2
            fi
        done
        summary="$summary $scenario:${w}x${k}"
    done
    wall=$(( $(date +%s) - start ))
    echo "  batch thread-world      runs=$total exec=$total ok=$okc ${wall}s (real rayon under Miri's seeded scheduler; scenario:workloads x Miri seeds =$summary)"
    python3 - "$ROOT/evidence/$id.json" "$summary" "$total" "$wall" "$BASEFLAGS" <<'EOF2'
import json, sys
f, summary, total, wall, flags = sys.argv[1:]
try:
    e = json.load(open(f))
except Exception:
    sys.exit(0)
c = e.setdefault("coverage", {})
c["thread_world"] = {"scenarios (workloads x Miri seeds)": summary.strip(), "executions": int(total), "all_ok": True, "wall_s": int(wall), "miriflags": flags + " (+ -Zmiri-disable-isolation for the experiment scenario)",
    "what": "mahf's parallel paths on the real rayon crate, every thread interleaving decided by Miri's seeded scheduler (preemption at basic-block ends with rate 0.05); data-race detection on; one (scenario, workload seed, threads, Miri seed) tuple replays exactly",
    "real": ["mahf", "rayon", "rayon-core", "crossbeam-*", "rand", "indicatif, ciborium, ron, std::fs (experiment scenario)"], "stub": ["the machine: Miri interprets MIR instead of running native code"]}
c.setdefault("counters", {})["thread-world executions (real rayon under Miri)"] = int(total)
e["coverage"] = c
json.dump(e, open(f, "w"), indent=1)
EOF2
    exit 0
    ;;
replay)
    f="${2:?file}"
    read -r id scenario wseed threads ms class <<<"$(python3 -c "
import json,sys
d=json.load(open(sys.argv[1])); print(d['property'], d['scenario'], d['workload_seed'], d['threads'], d['miri_seed'], d['violation_class'])" "$f")"
    flags="$BASEFLAGS"; [ "$scenario" = exp ] && flags="$BASEFLAGS -Zmiri-disable-isolation"
    if ! available; then echo "harness error: cargo +nightly miri is not available" >&2; exit 2; fi
    rep=$(run_one "$scenario" "$wseed" "$threads" "$flags -Zmiri-seed=$ms")
    line=$(echo "$rep" | grep -m1 -o -E 'THREAD-WORLD.*|Data race detected.*|Undefined Behavior.*')
    echo "replay: $line"
    if echo "$rep" | grep -q -E "class=$class |Data race detected|Undefined Behavior"; then
        echo "replay: reproduces the recorded violation class"
        echo "VIOLATION property=$id replay=$f"
        exit 1
    fi
    if echo "$rep" | grep -q 'THREAD-WORLD ok'; then
        echo "replay: no violation (the property holds on this case for the current tree)"
        exit 0
    fi
    echo "harness error: thread world replay gave neither ok nor a violation" >&2
    echo "$rep" | grep -E '^error' -A6 | head -20 >&2
    exit 2
    ;;
setup)
    available || { echo "thread world: miri not available (thorough tier will skip it)"; exit 0; }
    cargo +nightly miri setup >/dev/null 2>&1
    MIRIFLAGS="$BASEFLAGS" cargo +nightly miri run --offline -- ga 1 2 2>&1 | grep -E '^THREAD-WORLD' || echo "thread world: warm-up run did not report (thorough tier will say why)"
    ;;
*)
    echo "usage: thread_world.sh run <ID> [workloads] [miri-seeds] | replay <file> | setup" >&2; exit 2 ;;
esac
