#!/bin/bash
# Thread world (thorough tier of C05 C06 C08 C19): mahf's parallel paths on the REAL rayon under
# Miri's seeded scheduler (/verif/miri). One (scenario, workload seed, threads, Miri seed) tuple is
# one exactly repeatable execution; Miri also reports data races.
#   thread_world.sh run <ID> [workloads] [miri-seeds]   exit 0 held / 1 VIOLATION / 2 harness error / 3 not available
#   thread_world.sh replay <file>
set -u
ROOT="${VERIF_ROOT:-/verif}"
cd "$ROOT/miri" || exit 2
export CARGO_NET_OFFLINE=true
BASEFLAGS="-Zmiri-tree-borrows -Zmiri-ignore-leaks -Zmiri-permissive-provenance -Zmiri-preemption-rate=0.05"

available() {
    cargo +nightly miri --version >/dev/null 2>&1
}

run_one() { # scenario wseed threads miriflags -> output on stdout
    MIRIFLAGS="$4" cargo +nightly miri run --offline -- "$1" "$2" "$3" 2>&1
}

case "${1:-}" in
run)
    id="${2:?id}"; nwork="${3:-4}"; nseeds="${4:-16}"
    case "$id" in
        C19) scenario=aco ;;
        C05|C06|C08) scenario=ga ;;
        *) exit 0 ;;
    esac
    if ! available; then echo "thread world: cargo +nightly miri is not available here - skipped (coverage reduced, see evidence)"; exit 3; fi
    seed="${VERIF_SEED:-1}"
    start=$(date +%s)
    total=0; okc=0
    for i in $(seq 0 $((nwork-1))); do
        wseed=$((seed*1000+i)); threads=$((2 + i % 3))
        out=$(run_one "$scenario" "$wseed" "$threads" "$BASEFLAGS -Zmiri-many-seeds=0..$nseeds")
        n_ok=$(echo "$out" | grep -c '^THREAD-WORLD ok')
        total=$((total+nseeds)); okc=$((okc+n_ok))
        vio=$(echo "$out" | grep -m1 '^THREAD-WORLD VIOLATION')
        race=$(echo "$out" | grep -m1 -E 'Data race detected|Undefined Behavior')
        if [ -n "$vio" ] || [ -n "$race" ]; then
            fs=$(echo "$out" | grep -m1 'FAILING SEED' | sed 's/.*FAILING SEED: *//')
            [ -z "$fs" ] && fs=0
            if [ -n "$vio" ]; then class=$(echo "$vio" | sed 's/.*class=\([^ ]*\).*/\1/'); msg="$vio"; else class="miri-data-race-or-undefined-behaviour"; msg="$race"; fi
            mkdir -p "$ROOT/replays"
            f="$ROOT/replays/$id-thread-world-$scenario-$wseed-$fs.json"
            python3 - "$f" "$id" "$scenario" "$wseed" "$threads" "$fs" "$class" "$msg" "$BASEFLAGS" <<'EOF'
import json, sys
f, pid, sc, ws, th, ms, cl, msg, flags = sys.argv[1:]
json.dump({"engine": "thread-world", "property": pid, "scenario": sc, "workload_seed": int(ws), "threads": int(th), "miri_seed": int(ms), "miriflags": flags, "violation_class": cl, "message": msg}, open(f, "w"), indent=1)
EOF
            # the replay must reproduce it before it is reported
            rep=$(run_one "$scenario" "$wseed" "$threads" "$BASEFLAGS -Zmiri-seed=$fs")
            if echo "$rep" | grep -q -E "class=$class|Data race detected|Undefined Behavior"; then
                echo "  thread world: $msg"
                echo "  violation class: thread-world $class"
                echo "VIOLATION property=$id replay=$f"
                exit 1
            fi
            echo "harness error: thread world violation (Miri seed $fs) did not reproduce on replay" >&2
            exit 2
        fi
        if [ "$n_ok" -ne "$nseeds" ]; then
            echo "harness error: thread world: $n_ok of $nseeds executions of '$scenario $wseed $threads' reported ok and none reported a violation:" >&2
            echo "$out" | grep -E '^error' -A6 | head -30 >&2
            exit 2
        fi
    done
    wall=$(( $(date +%s) - start ))
    echo "  batch thread-world      runs=$total exec=$total ok=$okc ${wall}s (scenario $scenario: real rayon under Miri's seeded scheduler, $nwork workloads x $nseeds Miri seeds)"
    python3 - "$ROOT/evidence/$id.json" "$scenario" "$nwork" "$nseeds" "$total" "$wall" "$BASEFLAGS" <<'EOF'
import json, sys
f, sc, nw, ns, total, wall, flags = sys.argv[1:]
try:
    e = json.load(open(f))
except Exception:
    sys.exit(0)
c = e.setdefault("coverage", {})
c["thread_world"] = {"scenario": sc, "workloads": int(nw), "miri_seeds_per_workload": int(ns), "executions": int(total), "all_ok": True, "wall_s": int(wall), "miriflags": flags,
    "what": "mahf's parallel path on the real rayon crate, every thread interleaving decided by Miri's seeded scheduler (preemption at basic-block ends with rate 0.05); data-race detection on; one (workload seed, threads, Miri seed) tuple replays exactly",
    "real": ["mahf", "rayon", "rayon-core", "crossbeam-*", "rand"], "stub": ["the machine: Miri interprets MIR instead of running native code"]}
c.setdefault("counters", {})["thread-world executions (real rayon under Miri)"] = int(total)
e["coverage"] = c
json.dump(e, open(f, "w"), indent=1)
EOF
    exit 0
    ;;
replay)
    f="${2:?file}"
    read -r id scenario wseed threads ms class <<<"$(python3 -c "
import json,sys
d=json.load(open(sys.argv[1])); print(d['property'], d['scenario'], d['workload_seed'], d['threads'], d['miri_seed'], d['violation_class'])" "$f")"
    if ! available; then echo "harness error: cargo +nightly miri is not available" >&2; exit 2; fi
    rep=$(run_one "$scenario" "$wseed" "$threads" "$BASEFLAGS -Zmiri-seed=$ms")
    line=$(echo "$rep" | grep -m1 -E '^THREAD-WORLD|Data race detected|Undefined Behavior')
    echo "replay: $line"
    if echo "$rep" | grep -q -E "class=$class |Data race detected|Undefined Behavior"; then
        echo "replay: reproduces the recorded violation class"
        echo "VIOLATION property=$id replay=$f"
        exit 1
    fi
    if echo "$rep" | grep -q '^THREAD-WORLD ok'; then
        echo "replay: no violation (the property holds on this case for the current tree)"
        exit 0
    fi
    echo "harness error: thread world replay gave neither ok nor a violation" >&2
    echo "$rep" | grep -E '^error' -A6 | head -20 >&2
    exit 2
    ;;
setup)
    available || { echo "thread world: miri not available (thorough tier will skip it)"; exit 0; }
    cargo +nightly miri setup >/dev/null 2>&1
    MIRIFLAGS="$BASEFLAGS" cargo +nightly miri run --offline -- ga 1 2 2>&1 | grep -E '^THREAD-WORLD' || echo "thread world: warm-up run did not report (thorough tier will say why)"
    ;;
*)
    echo "usage: thread_world.sh run <ID> [workloads] [miri-seeds] | replay <file> | setup" >&2; exit 2 ;;
esac
