#!/bin/bash
# Applies one seeded change to /repo, runs the given checks (quick), restores /repo.
# Usage: run_seeded.sh <patch-dir> <ID>...   (patch-dir contains patch.diff)
d="$1"; shift
case "$d" in /*) ;; *) d="$PWD/$d" ;; esac
cd /repo || exit 2
if [ -n "$(git status --porcelain --untracked-files=no)" ]; then echo "refusing: /repo has uncommitted changes"; exit 2; fi
if ! git apply --3way "$d/patch.diff" 2>/tmp/apply.err && ! git apply "$d/patch.diff" 2>>/tmp/apply.err; then echo "$(basename $d): PATCH DOES NOT APPLY"; cat /tmp/apply.err | head -5; git reset -q --hard HEAD; exit 3; fi
git reset -q
for id in "$@"; do
  out=$(/verif/check "$id" quick 2>&1); code=$?
  echo "$(basename $d) -> $id: exit=$code $(echo "$out" | grep -m1 'violation class' ) $(echo "$out" | grep -m1 'harness error')"
done
git checkout -q -- .
# never leave a simulator binary built from the modified tree behind
/verif/check setup >/dev/null 2>&1
