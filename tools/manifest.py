#!/usr/bin/env python3
"""Regenerates /verif/MANIFEST.json from the table below (single source of truth)."""
import json, os, subprocess

ROOT = os.path.dirname(os.path.dirname(os.path.abspath(__file__)))

def hook_commits():
    try:
        out = subprocess.run(["git", "-C", "/repo", "log", "--format=%H %s"], capture_output=True, text=True).stdout
        return [l.split()[0] for l in out.splitlines() if "verif hook" in l]
    except Exception:
        return []

CHECKS = {
    "C01": dict(
        category="exploration",
        technique="deterministic simulation: seeded operation histories and scoped programs with injected failures vs stack-of-maps model",
        text="Seeded search over (a) operation histories on a real State (every registry and entry-API operation, explicit scope push/pop, with_inner_state and holding with closures that succeed or fail, nested) in lock-step with a Vec<BTreeMap> model: every return value and, after every operation, the content of every scope level must agree; (b) generated configurations whose probe leaves run such scripts, so that scopes are pushed and popped by the real Scope component, fault-free or with one injected failure that forces scope exits. Sampling, no exhaustive bound.",
        note="Oracle is the stack-of-maps model in sim/src/engine/ops.rs. Apart from failure-forced scope exits the property contains no schedule or fault; most of this check is a reference-model history check driven by the simulator's seeded generator.",
        design_ref="5/C01",
    ),
    "C02": dict(
        category="exploration",
        technique="deterministic simulation: seeded guard histories vs reader/writer model, multi-borrow tuple catalogue, nested holding with failing closures",
        text="Seeded search over guard micro-histories (guards kept alive in an arena while further shared/exclusive requests, reads, writes, drops, value get/set are issued at the top scope or at ancestors, the same type present in several scopes; panicking accessors under catch_unwind) against a reader-count/writer-flag model per (scope, type); a fixed catalogue of 175 type tuples of arity 2..8 (distinct, reversed, every single repeat, double repeat, absent types) against seeded scope layouts with distinctness of the returned references and visibility of writes; histories of holding nested to depth 3 with closure failures.",
        note="Oracle models in sim/src/checks/c02.rs and engine/ops.rs. No schedule is involved (the registry is single-threaded); the only faults are closure failures inside holding.",
        design_ref="5/C02",
    ),
    "C03": dict(
        category="fault_enumeration",
        technique="deterministic simulation: seeded configuration trees x every single fault point, trace vs reference interpreter",
        text="Seeded search over generated configuration trees (real Block/Loop/Branch/Scope via ConfigurationBuilder, harness probe leaves and scripted conditions). For every tree the fault space is enumerated completely: fault-free, plus one execution per (leaf or condition, phase, occurrence) event of the reference trace with that event failing. Oracle: event-for-event equality with a reference interpreter (init once before any require, all requires before any execute, loop re-init/test/count, first error stops everything and is the error returned), then an audit of the caller's State after the run, also after Err: one scope level, every tracked type holds what the model says. Sampling over trees, exhaustive over single faults per tree.",
        note="Trusts the reference interpreter in sim/src/engine/program.rs as the meaning of 'the corresponding structured program'. Leaves/conditions are harness stubs; control flow, builder, State/StateRegistry are real. At most one injected failure per execution.",
        design_ref="5/C03",
    ),
}

CHECKS["C10"] = dict(
    category="exploration",
    technique="deterministic simulation: seeded programs with real conditions over probe-controlled state vs reference interpreter; loop hook-free pass/test counting; seeded frequency test",
    text="Seeded search over generated configurations whose while/if conditions are the real LessThanN, EveryN, ChangeOf (both checkers), OptimumReached and And/Or/Not over state that probe leaves rewrite from small value ranges; every evaluation's truth value, the progress value after every less-than-n test and the exactly-once evaluation of every operand are compared event for event with the reference interpreter. Iteration-bounded loops (n in 0..200, nested in scopes, inner loops in their own scope): exactly n passes, n+1 tests, progress k/n. RandomChance: exact for p in {0,1}, otherwise frequency over >= 20000 seeded draws within 6 sigma + 0.005.",
    note="Oracle: reference interpreter in sim/src/engine/program.rs; change-of is modelled with one memory per observed lens and 'first evaluation reports a change'. The probabilistic clause is a statistical test, not a proof; its tolerance keeps the false-alarm probability below 1e-8 per case.",
    design_ref="5/C10",
)

CHECKS["C15"] = dict(
    category="fault_enumeration",
    technique="deterministic simulation with fault injection: expected-log model vs decoded exports; simulated disk with create/ENOSPC-at-every-offset/short-write/EINTR/flush faults; /dev/full; configuration export of generated trees and all templates",
    text="Log content: generated configurations with loggers and rule sets, fault-free or with one injected failure; the reference interpreter's expected log must equal the decoded JSON and CBOR exports. Export path: for each exported artefact (json, cbor, ron) the device-full fault is enumerated over every byte offset of the fault-free output, plus create, flush, short-write and EINTR faults on a simulated disk behind the cfg(mahf_verif) I/O seam: Ok(()) implies the bytes on disk decode to the expected content, transient faults must not fail the export; the same against the kernel's /dev/full without a hook. Configuration export: generated trees and all shipped templates serialise, show the pre-order sequence of components and parameters, equal their clone's, differ from a mutated configuration's. par_experiment's file set under simulated schedules and I/O faults.",
    note="Sampling over logs/configurations; exhaustive over single ENOSPC offsets per artefact. The disk under faults is an in-memory stub; serde_json, ciborium, ron and std::fs are real. After an export returned Err nothing is claimed about the file.",
    design_ref="5/C15",
)

NOT_APPLICABLE = [
    ("C04", "pure sequential container (Vec wrapper): no schedule, fault or cross-step state for a simulator to control; deciding it is input enumeration (DESIGN.md section 3)"),
    ("C09", "value algebra of two float wrappers: pure function of its inputs, nothing to simulate (DESIGN.md section 3)"),
    ("C11", "single-call selection postcondition over (population, draws): pure function of its input (DESIGN.md section 3)"),
    ("C12", "single-call replacement postcondition over (parents, offspring, draws): pure function of its input (DESIGN.md section 3)"),
    ("C13", "pure helper functions and single-call variation postconditions: no schedule, fault or cross-step state (DESIGN.md section 3)"),
    ("C14", "point-wise numeric postconditions at isolated floating-point inputs: a grid, not a run (DESIGN.md section 3)"),
    ("C17", "single acceptance call (f_cur, f_cand, T, draw) -> survivor and single cooling call: pure function of its input (DESIGN.md section 3)"),
]

PENDING = {
}

def main():
    checks = []
    for pid in sorted(CHECKS):
        c = CHECKS[pid]
        checks.append({
            "property_id": pid,
            "quick_cmd": f"./check {pid} quick",
            "thorough_cmd": f"./check {pid} thorough",
            "evidence_file": f"/verif/evidence/{pid}.json",
            "replay_cmd_template": "./check replay {path}",
            "engine": "sim",
            "level_claimed": {"category": c["category"], "text": c["text"], "design_ref": "DESIGN.md section " + c["design_ref"]},
            "level_note": c["note"],
            "technique": c["technique"],
        })
    na = [{"property_id": p, "reason": r} for p, r in NOT_APPLICABLE]
    for p, r in sorted(PENDING.items()):
        na.append({"property_id": p, "reason": r})
    na.sort(key=lambda x: x["property_id"])
    m = {
        "version": 1,
        "setup_cmd": "./check setup",
        "hooks": {
            "guard": "--cfg mahf_verif",
            "enable": "RUSTFLAGS '--cfg mahf_verif', set for the simulator build by /verif/sim/.cargo/config.toml ([build] rustflags); ./check rebuilds the simulator against /repo's working tree on every invocation",
            "baseline_off_cmd": "cd /repo && cargo test --workspace --no-fail-fast --offline",
            "source_commits": hook_commits(),
            "add_only": True,
        },
        "engines": [
            {"name": "sim", "path": "/verif/sim", "serves_properties": sorted(CHECKS),
             "kind_free_text": "deterministic simulator (Rust): seeded workloads, fault plans and shuttle-scheduled simulated worker pool replacing rayon ([patch.crates-io] shims in /verif/shims); reference models as oracles; minimised replay files"},
        ],
        "checks": checks,
        "notes": "One binary (sim); ./check <ID> quick|thorough. Exit 0 held / 1 VIOLATION / 2 harness or build error. Known findings: /verif/known_findings.json. See DESIGN.md.",
        "not_applicable": na,
    }
    with open(os.path.join(ROOT, "MANIFEST.json"), "w") as f:
        json.dump(m, f, indent=1)
        f.write("\n")

if __name__ == "__main__":
    main()
