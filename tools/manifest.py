#!/usr/bin/env python3
"""Regenerates /verif/MANIFEST.json from the table below (single source of truth)."""
import json, os, subprocess

ROOT = os.path.dirname(os.path.dirname(os.path.abspath(__file__)))

def hook_commits():
    try:
        out = subprocess.run(["git", "-C", "/repo", "log", "--format=%H %s"], capture_output=True, text=True).stdout
        return [l.split()[0] for l in out.splitlines() if "verif hook" in l]
    except Exception:
        return []

CHECKS = {
    "C01": dict(
        category="exploration",
        technique="deterministic simulation: seeded operation histories and scoped programs with injected failures vs stack-of-maps model",
        text="Seeded search over (a) operation histories on a real State (every registry and entry-API operation, explicit scope push/pop, with_inner_state and holding with closures that succeed or fail, nested) in lock-step with a Vec<BTreeMap> model: every return value and, after every operation, the content of every scope level must agree (the histories include reads/writes and presence queries (contains, require, contains_at_top, find) while a guard is alive - a panic of a quiet accessor is an answer like any other - and multi-borrows with write-through); (b) generated configurations whose probe leaves run such scripts, so that scopes are pushed and popped by the real Scope component, fault-free or with one injected failure that forces scope exits. Sampling, no exhaustive bound.",
        note="Oracle is the stack-of-maps model in sim/src/engine/ops.rs. Apart from failure-forced scope exits the property contains no schedule or fault; most of this check is a reference-model history check driven by the simulator's seeded generator.",
        design_ref="5/C01",
    ),
    "C02": dict(
        category="exploration",
        technique="deterministic simulation: seeded guard histories vs reader/writer model, multi-borrow tuple catalogue, nested holding with failing closures",
        text="Seeded search over guard micro-histories (guards kept alive in an arena while further shared/exclusive requests, reads, writes, drops, value get/set are issued at the top scope or at ancestors, presence queries under live guards, quiet readers of the best-individual memory next to shared guards, the same type present in several scopes; panicking accessors under catch_unwind) against a reader-count/writer-flag model per (scope, type); a fixed catalogue of 175 type tuples of arity 2..8 (distinct, reversed, every single repeat, double repeat, absent types) against seeded scope layouts with distinctness of the returned references and visibility of writes, plus requests that name field-less (zero-sized) marker states, which legitimately share an address; histories of holding nested to depth 3 with closure failures.",
        note="Oracle models in sim/src/checks/c02.rs and engine/ops.rs. No schedule is involved (the registry is single-threaded); the only faults are closure failures inside holding.",
        design_ref="5/C02",
    ),
    "C03": dict(
        category="fault_enumeration",
        technique="deterministic simulation: seeded configuration trees x every single fault point, trace vs reference interpreter",
        text="Seeded search over generated configuration trees (real Block/Loop/Branch/Scope via ConfigurationBuilder, harness probe leaves and scripted conditions). For every tree the fault space is enumerated completely: fault-free, plus one execution per (leaf or condition, phase, occurrence) event of the reference trace with that event failing. Oracle: event-for-event equality with a reference interpreter (init once before any require, all requires before any execute, loop re-init/test/count, first error stops everything and is the error returned), then an audit of the caller's State after the run, also after Err: one scope level, every tracked type holds what the model says. Scopes carry state-init/merge hooks (hooks that fill the child, hooks that leave it empty, hooks that seed a pass counter); the caller's state may already hold a pass counter; 30 % of the programs are resumed on the same state after an error. Sampling over trees, exhaustive over single faults per tree.",
        note="Trusts the reference interpreter in sim/src/engine/program.rs as the meaning of 'the corresponding structured program'. Leaves/conditions are harness stubs; control flow, builder, State/StateRegistry are real. At most one injected failure per execution.",
        design_ref="5/C03",
    ),
}

CHECKS["C10"] = dict(
    category="exploration",
    technique="deterministic simulation: seeded programs with real conditions over probe-controlled state vs reference interpreter; loop hook-free pass/test counting; seeded frequency test",
    text="Seeded search over generated configurations whose while/if conditions are the real LessThanN, EveryN, ChangeOf (both checkers), OptimumReached and And/Or/Not over state that probe leaves rewrite from small value ranges; (also inside scopes with their own, still empty, best-individual memory; known optima other than 0; a population stack the conditions must not look at; a float-valued state with NaN and infinite values under LessThanN with fractional bounds) every evaluation's truth value, the progress value after every less-than-n test and the exactly-once evaluation of every operand are compared event for event with the reference interpreter. Iteration-bounded loops (n in 0..200, nested in scopes, inner loops in their own scope): exactly n passes, n+1 tests, progress k/n. RandomChance: exact for p in {0,1}, otherwise frequency over >= 20000 seeded draws within 6 sigma + 0.005.",
    note="Oracle: reference interpreter in sim/src/engine/program.rs; change-of is modelled with one memory per observed lens and 'first evaluation reports a change'. The probabilistic clause is a statistical test, not a proof; its tolerance keeps the false-alarm probability below 1e-8 per case.",
    design_ref="5/C10",
)

CHECKS["C15"] = dict(
    category="fault_enumeration",
    technique="deterministic simulation with fault injection: expected-log model vs decoded exports; simulated disk with create/ENOSPC-at-every-offset/short-write/EINTR/flush faults; /dev/full; configuration export of generated trees and all templates; thorough tier adds seeded search over Miri-scheduled thread interleavings of the real rayon pool (thread world, experiment scenario)",
    text="Log content: generated configurations with loggers and rule sets, fault-free or with one injected failure, rules that share an entry name over different sources (first fired rule wins); the reference interpreter's expected log must equal the decoded JSON and CBOR exports. Export path: for each exported artefact (json, cbor, ron) the device-full fault is enumerated over every byte offset of the fault-free output, plus create, flush, short-write and EINTR faults on a simulated disk behind the cfg(mahf_verif) I/O seam: Ok(()) implies the bytes on disk decode to the expected content, transient faults must not fail the export; the same against the kernel's /dev/full without a hook. Configuration export: generated trees and all shipped templates serialise, show the pre-order sequence of components and parameters, equal their clone's, differ from a mutated configuration's (a changed subtree, or the same operands under the other Boolean combinator; evaluation steps under different identifiers); exporting over an existing longer file leaves exactly the new content. par_experiment's file set under simulated schedules and I/O faults. Thorough tier only: the thread world - the same parallel paths on the REAL rayon under Miri's seeded scheduler (preemption at basic-block ends, data-race detection on; scenarios binary_ga with the parallel evaluator and ant_system with a large colony: 4 workloads x 32 Miri seeds; repeated direct Parallel::evaluate calls: 2 x 32; par_experiment with file export: 2 x 16), replayable by Miri seed.",
    note="Sampling over logs/configurations; exhaustive over single ENOSPC offsets per artefact. The disk under faults is an in-memory stub; serde_json, ciborium, ron and std::fs are real. After an export returned Err nothing is claimed about the file.",
    design_ref="5/C15",
)

_TW_FAULTS = " Swarm-style fault mix shared by the template batches: 15 % of the runs start from the state of a complete earlier run of the same configuration (on the same or on a sibling instance of the same size), 10 % run the template as a nested heuristic one or two scopes deep inside a restart loop, 10 % run through a clone of the configuration."
_TW_NOTE = "Trusts the harness problems' pure reference objective and the cfg(mahf_verif) step/loop hooks in Block::execute / Loop::execute as the observation points. The optimisation problems are small instrumented stubs; every mahf component runs unmodified. Sampling over (template, parameters, instance, seed); no exhaustive bound."

CHECKS["C05"] = dict(
    category="exploration",
    technique="deterministic simulation: every shipped template stepped under a seeded generator, audit of every memory after every component execution; parallel evaluator on a simulated worker pool under seeded schedules; thorough tier adds seeded search over Miri-scheduled thread interleavings of the real rayon pool (thread world)",
    text="Seeded search over all 21 shipped templates (plus two archive assemblies) with swarm-style valid parameters, instances with and without penalty regions (+inf), sequential evaluator; after EVERY child execution of every sequential block at every nesting level every evaluated individual in the population stack, best-so-far, elitist archive, personal/global bests and molecule memories must carry exactly F(solution). A second batch repeats the audit while the objectives are written by the simulated workers of evaluate::Parallel under seeded schedules. The individual-level clause is checked by seeded histories of Individual operations (construction, evaluation, every mutable access, clone / clone_from through Vec, slice and Option, population helpers) against an (solution, Option<objective>) model; assemblies of de::de / ga::ga run the shipped operators no template wires in by default; an assembly evaluates prepared populations (empty, runs of equal neighbours, evaluated next to unevaluated); a user-defined modify-then-validate mutation on the public mutation() driver fails in the middle of an individual and the state the caller is left with after the failed run is audited; individual histories evaluate with a changing objective; the four shipped boundary repairs run on prepared evaluated populations with coordinates on, one ulp beside and far outside the bounds. Thorough tier only: the thread world - the same parallel paths on the REAL rayon under Miri's seeded scheduler (preemption at basic-block ends, data-race detection on; scenarios binary_ga with the parallel evaluator and ant_system with a large colony: 4 workloads x 32 Miri seeds; repeated direct Parallel::evaluate calls: 2 x 32; par_experiment with file export: 2 x 16), replayable by Miri seed." + _TW_FAULTS,
    note=_TW_NOTE,
    design_ref="5/C05",
)
CHECKS["C06"] = dict(
    category="exploration",
    technique="deterministic simulation: call-logging objective vs counter at every evaluation step; missing/wrong evaluator identifier as injected fault; simulated worker pool schedules for the parallel evaluator; thorough tier adds seeded search over Miri-scheduled thread interleavings of the real rayon pool (thread world)",
    text="At every PopulationEvaluator step of every template run: one objective call per individual of the pre-step population (multiset equality), order and solutions unchanged, all evaluated, counter advanced by the population size (0 for empty population or empty stack); at every step of any component: counter delta == objective calls; at run end: reported evaluations == objective calls and the evaluation budget is overshot by less than the last pass. Faults: evaluator not registered / registered under another identifier => Err, zero objective calls, zero executed steps (template batch and a dedicated identifier batch over Global/A/B). The parallel evaluator runs on 1..8 simulated workers under seeded random, sticky and PCT schedules with the same monitors; a panic inside the pool that the sequential run does not have is a violation. Evaluation steps also run on prepared populations (empty, duplicates, evaluated next to unevaluated) and after a scope whose init hook registered a surrogate evaluator (the caller's evaluator must be back in force; a run that loses a registered evaluator on the way is reported), and in a second loop that follows the first in the same scope (one run, one counter). Thorough tier only: the thread world - the same parallel paths on the REAL rayon under Miri's seeded scheduler (preemption at basic-block ends, data-race detection on; scenarios binary_ga with the parallel evaluator and ant_system with a large colony: 4 workloads x 32 Miri seeds; repeated direct Parallel::evaluate calls: 2 x 32; par_experiment with file export: 2 x 16), replayable by Miri seed." + _TW_FAULTS,
    note=_TW_NOTE + " rayon's scheduler is replaced by the simulated pool; interleavings at objective-call and queue granularity.",
    design_ref="5/C06",
)
CHECKS["C07"] = dict(
    category="exploration",
    technique="deterministic simulation: monotone/true-best monitors at every update step, run-end minimum vs objective call log, archive multiset model",
    text="At every BestIndividualUpdate step: exists iff existed or population non-empty, <= min(population), never worse than before, replaced only by a strictly better member of the population. At the end of every template run: reported best == minimum of the objective-call log. Elitist archive (ga/es assembled with ElitistArchiveUpdate(k), k in {0,1,2,5,20}, and ElitistArchiveIntoPopulation): archived values are the k smallest of (previous archive + population shown), members were shown, re-insertion leaves count max(before,1) and changes nothing else. Penalty regions supply ties at +inf, a step objective supplies ties between 0.0 and -0.0. Nested runs put an outer best-individual update after a scope in which the nested heuristic evaluated." + _TW_FAULTS,
    note=_TW_NOTE + " Known finding real_fa (see known_findings.json) is reported as KNOWN-FINDING.",
    design_ref="5/C07",
)
CHECKS["C08"] = dict(
    category="exploration",
    technique="deterministic simulation: rayon replaced by a shuttle-scheduled simulated worker pool; seeded random/sticky/PCT schedules; digest comparison sequential vs parallel vs clone; par_experiment under schedules; thorough tier adds seeded search over Miri-scheduled thread interleavings of the real rayon pool (thread world)",
    text="Same workload run with the sequential evaluator, through a cloned configuration, and with evaluate::Parallel on 1/2/3/4/8 simulated workers under several seeded schedules each (hand-out order of individuals is part of the schedule): the digest (population stack bits, best, counters, decoded log, next word of the generator) must be identical. Generators: children are a function of the seed, different seeds differ, children keep the backend, optimize_with keeps a supplied non-default generator and is repeatable. par_experiment (<= 6 runs x <= 3 problems) on the simulated pool: every (run, problem) digest and every decoded log file equals the run executed alone with Random::new(run) (or with the generator the setup function supplies); file set exact. Problems of one experiment have different domains; 3 % of the sequential-vs-parallel cases are large initialisations (>= 2^14 elements), 6 % run a search with the four shipped diversity measures over populations of 1..80 (their states are part of the digest); seeds include 0..3 compared with their neighbours; the supplied generator arrives by insert, insert-if-absent or the entry API. History independence: a shipped template run on a fresh OS thread and the same run right after a run on a same-named, same-sized sibling instance on the harness thread end in the same digest. Thorough tier only: the thread world - the same parallel paths on the REAL rayon under Miri's seeded scheduler (preemption at basic-block ends, data-race detection on; scenarios binary_ga with the parallel evaluator and ant_system with a large colony: 4 workloads x 32 Miri seeds; repeated direct Parallel::evaluate calls: 2 x 32; par_experiment with file export: 2 x 16), replayable by Miri seed.",
    note="rayon's work-stealing scheduler and indicatif are stubs (shims/); a bug inside rayon is out of reach, a mahf change that makes results depend on which worker runs what, in what order, or how runs overlap is in reach. Interleavings are decided by a seeded scheduler at objective-call, queue and I/O granularity; a schedule is replayed from its seed and identified by the hash of the recorded task sequence.",
    design_ref="5/C08",
)
CHECKS["C16"] = dict(
    category="exploration",
    technique="deterministic simulation: all 21 templates x swarm-style valid parameters x seeds run to completion under a seeded generator with extreme-draw buggify; loop hook checks stack balance per pass; thorough tier adds seeded search over Miri-scheduled thread interleavings of the real rayon pool (thread world)",
    text="Every shipped template constructor with parameters drawn from its documented valid ranges including boundary values (population 1-2, tournament = population, probabilities 0/1, y in {1,2}, tiny v_max, distance ratios up to 1e12), n in 0..120 iterations (quick: 0..40 plus the bounds 49, 98, 103, 107 for which n*(1/n) != 1), no failing fault: the run returns Ok without panic, the iteration counter equals n with n+1 condition tests, the population stack has the same height at the end of every pass of every loop as at its beginning, one population at the end, population size after each pass within the template's prescription. A second batch forces one word of the random stream to 0 or u64::MAX (rare legal draws); a third runs the templates with evaluate::Parallel on the simulated worker pool under seeded schedules (run-end and per-pass monitors, and panics the sequential run does not have). Thorough tier only: the thread world - the same parallel paths on the REAL rayon under Miri's seeded scheduler (preemption at basic-block ends, data-race detection on; scenarios binary_ga with the parallel evaluator and ant_system with a large colony: 4 workloads x 32 Miri seeds; repeated direct Parallel::evaluate calls: 2 x 32; par_experiment with file export: 2 x 16), replayable by Miri seed." + _TW_FAULTS,
    note=_TW_NOTE,
    design_ref="5/C16",
)
CHECKS["C18"] = dict(
    category="exploration",
    technique="deterministic simulation: swarm-state monitors after every step of seeded PSO runs",
    text="After every ParticleVelocitiesUpdate: |v| <= v_max, x_after == x_before + v_after bit-exactly, v_after inside the interval the update rule allows for the inertia weight STORED before the step (an equality when c1 = c2 = 0, which decides that the stored weight is the one used); after the linear mapping: weight == start + (end-start)*progress exactly; personal best == best value the particle was ever evaluated at and never worse; global best == min personal best after every swarm-update block and loop pass; velocities, personal bests and particles have equal length after every step. The progress is checked independently (iterations / n), also under the compound condition evaluations(e) | iterations(n). Fault: a foreign component removes or duplicates a particle between two swarm updates - the next update must refuse. A second batch composes the identifier variants of the PSO components into a two-swarm search (Global and A, own populations, velocities and memories in one state) and compares every swarm's memories with an independently recorded per-particle history, optionally after a scouting phase that recorded a better best individual before the swarms existed; a quarter of the PSO runs use the generic pso() assembly whose velocity update has a weight of its own. A third batch repeats the swarm monitors while evaluate::Parallel writes the objective values on the simulated pool." + _TW_FAULTS,
    note=_TW_NOTE,
    design_ref="5/C18",
)
CHECKS["C19"] = dict(
    category="exploration",
    technique="deterministic simulation: tour/pheromone monitors after every generation and update along seeded ACO runs (reachable pheromone states), extreme-draw buggify; thorough tier adds seeded search over Miri-scheduled thread interleavings of the real rayon pool (thread world)",
    text="Both ACO templates over 2..8 cities, distance ratios up to 1e12, 0..8 ants, alpha,beta in [0,5] incl. exactly 0 and 1, rho in [0,1] incl. 0 and 1, initial trails incl. exactly 0, single-city instances, sparse maps with infinite distances, up to 200 iterations so that long-evaporated trails are reached: after generation ants+1 tours, each a permutation of all cities starting at 0, unevaluated; after each update the matrix equals (1-rho)*before + deposits recomputed from the rewarded tours on exactly the consecutive-city edges in both directions (purely relative tolerance 1e-9, tour lengths taken from the instance at hand), symmetric, finite, non-negative, max-min: within bounds. Instances include asymmetric ones and units of length 1e-17..1e17. Thorough tier only: the thread world - the same parallel paths on the REAL rayon under Miri's seeded scheduler (preemption at basic-block ends, data-race detection on; scenarios binary_ga with the parallel evaluator and ant_system with a large colony: 4 workloads x 32 Miri seeds; repeated direct Parallel::evaluate calls: 2 x 32; par_experiment with file export: 2 x 16), replayable by Miri seed." + _TW_FAULTS,
    note=_TW_NOTE,
    design_ref="5/C19",
)
CHECKS["C20"] = dict(
    category="exploration",
    technique="deterministic simulation: energy ledger and (individual, molecule) pairing model around every reaction along seeded CRO runs",
    text="CRO template runs over its nine parameters (buffer 0, initial KE 0, alpha 0, large beta, mole_coll 0/1 included), up to 300 iterations; around every elementary-reaction update: sum of objective values + kinetic energies + buffer unchanged (1e-9 relative to the sum of the absolute terms - no absolute floor, energies in units of 1e-20..1e15), no negative kinetic energy or buffer, one molecule record per individual, pairs not involved in the reaction unchanged and in order, exactly two populations consumed. All four reactions are reached in accepted and rejected outcomes (probes). A second batch executes single reactions on hand-built three-population stacks (energies on grids around the acceptance threshold, negative objective values, equal individuals, same solution with different objective values, second reactant before the first, empty buffer)." + _TW_FAULTS,
    note=_TW_NOTE,
    design_ref="5/C20",
)

NOT_APPLICABLE = [
    ("C04", "pure sequential container (Vec wrapper): no schedule, fault or cross-step state for a simulator to control; deciding it is input enumeration (DESIGN.md section 3)"),
    ("C09", "value algebra of two float wrappers: pure function of its inputs, nothing to simulate (DESIGN.md section 3)"),
    ("C11", "single-call selection postcondition over (population, draws): pure function of its input (DESIGN.md section 3)"),
    ("C12", "single-call replacement postcondition over (parents, offspring, draws): pure function of its input (DESIGN.md section 3)"),
    ("C13", "pure helper functions and single-call variation postconditions: no schedule, fault or cross-step state (DESIGN.md section 3)"),
    ("C14", "point-wise numeric postconditions at isolated floating-point inputs: a grid, not a run (DESIGN.md section 3)"),
    ("C17", "single acceptance call (f_cur, f_cand, T, draw) -> survivor and single cooling call: pure function of its input (DESIGN.md section 3)"),
]

PENDING = {
}

def main():
    checks = []
    for pid in sorted(CHECKS):
        c = CHECKS[pid]
        checks.append({
            "property_id": pid,
            "quick_cmd": f"./check {pid} quick",
            "thorough_cmd": f"./check {pid} thorough",
            "evidence_file": f"/verif/evidence/{pid}.json",
            "replay_cmd_template": "./check replay {path}",
            "engine": "sim",
            "level_claimed": {"category": c["category"], "text": c["text"], "design_ref": "DESIGN.md section " + c["design_ref"]},
            "level_note": c["note"],
            "technique": c["technique"],
        })
    na = [{"property_id": p, "reason": r} for p, r in NOT_APPLICABLE]
    for p, r in sorted(PENDING.items()):
        na.append({"property_id": p, "reason": r})
    na.sort(key=lambda x: x["property_id"])
    m = {
        "version": 1,
        "setup_cmd": "./check setup",
        "hooks": {
            "guard": "--cfg mahf_verif",
            "enable": "RUSTFLAGS '--cfg mahf_verif', set for the simulator build by /verif/sim/.cargo/config.toml ([build] rustflags); ./check rebuilds the simulator against /repo's working tree on every invocation",
            "baseline_off_cmd": "cd /repo && cargo test --workspace --no-fail-fast --offline",
            "source_commits": hook_commits(),
            "add_only": True,
        },
        "engines": [
            {"name": "sim", "path": "/verif/sim", "serves_properties": sorted(CHECKS),
             "kind_free_text": "deterministic simulator (Rust): seeded workloads, fault plans and shuttle-scheduled simulated worker pool replacing rayon ([patch.crates-io] shims in /verif/shims); reference models as oracles; minimised replay files"},
        ],
        "checks": checks,
        "notes": "One binary (sim); ./check <ID> quick|thorough. Exit 0 held / 1 VIOLATION / 2 harness or build error. Known findings: /verif/known_findings.json. See DESIGN.md.",
        "not_applicable": na,
    }
    with open(os.path.join(ROOT, "MANIFEST.json"), "w") as f:
        json.dump(m, f, indent=1)
        f.write("\n")

if __name__ == "__main__":
    main()
