#!/usr/bin/env python3
"""Regenerates /verif/MANIFEST.json from the table below (single source of truth)."""
import json, os, subprocess

ROOT = os.path.dirname(os.path.dirname(os.path.abspath(__file__)))

def hook_commits():
    try:
        out = subprocess.run(["git", "-C", "/repo", "log", "--format=%H %s"], capture_output=True, text=True).stdout
        return [l.split()[0] for l in out.splitlines() if "verif hook" in l]
    except Exception:
        return []

CHECKS = {
    "C03": dict(
        category="fault_enumeration",
        technique="deterministic simulation: seeded configuration trees x every single fault point, trace vs reference interpreter",
        text="Seeded search over generated configuration trees (real Block/Loop/Branch/Scope via ConfigurationBuilder, harness probe leaves and scripted conditions). For every tree the fault space is enumerated completely: fault-free, plus one execution per (leaf or condition, phase, occurrence) event of the reference trace with that event failing. Oracle: event-for-event equality with a reference interpreter (init once before any require, all requires before any execute, loop re-init/test/count, first error stops everything and is the error returned), then an audit of the caller's State after the run, also after Err: one scope level, every tracked type holds what the model says. Sampling over trees, exhaustive over single faults per tree.",
        note="Trusts the reference interpreter in sim/src/engine/program.rs as the meaning of 'the corresponding structured program'. Leaves/conditions are harness stubs; control flow, builder, State/StateRegistry are real. At most one injected failure per execution.",
        design_ref="5/C03",
    ),
}

NOT_APPLICABLE = [
    ("C04", "pure sequential container (Vec wrapper): no schedule, fault or cross-step state for a simulator to control; deciding it is input enumeration (DESIGN.md section 3)"),
    ("C09", "value algebra of two float wrappers: pure function of its inputs, nothing to simulate (DESIGN.md section 3)"),
    ("C11", "single-call selection postcondition over (population, draws): pure function of its input (DESIGN.md section 3)"),
    ("C12", "single-call replacement postcondition over (parents, offspring, draws): pure function of its input (DESIGN.md section 3)"),
    ("C13", "pure helper functions and single-call variation postconditions: no schedule, fault or cross-step state (DESIGN.md section 3)"),
    ("C14", "point-wise numeric postconditions at isolated floating-point inputs: a grid, not a run (DESIGN.md section 3)"),
    ("C17", "single acceptance call (f_cur, f_cand, T, draw) -> survivor and single cooling call: pure function of its input (DESIGN.md section 3)"),
]

PENDING = {
}

def main():
    checks = []
    for pid in sorted(CHECKS):
        c = CHECKS[pid]
        checks.append({
            "property_id": pid,
            "quick_cmd": f"./check {pid} quick",
            "thorough_cmd": f"./check {pid} thorough",
            "evidence_file": f"/verif/evidence/{pid}.json",
            "replay_cmd_template": "./check replay {path}",
            "engine": "sim",
            "level_claimed": {"category": c["category"], "text": c["text"], "design_ref": "DESIGN.md section " + c["design_ref"]},
            "level_note": c["note"],
            "technique": c["technique"],
        })
    na = [{"property_id": p, "reason": r} for p, r in NOT_APPLICABLE]
    for p, r in sorted(PENDING.items()):
        na.append({"property_id": p, "reason": r})
    na.sort(key=lambda x: x["property_id"])
    m = {
        "version": 1,
        "setup_cmd": "./check setup",
        "hooks": {
            "guard": "--cfg mahf_verif",
            "enable": "RUSTFLAGS '--cfg mahf_verif', set for the simulator build by /verif/sim/.cargo/config.toml ([build] rustflags); ./check rebuilds the simulator against /repo's working tree on every invocation",
            "baseline_off_cmd": "cd /repo && cargo test --workspace --no-fail-fast --offline",
            "source_commits": hook_commits(),
            "add_only": True,
        },
        "engines": [
            {"name": "sim", "path": "/verif/sim", "serves_properties": sorted(CHECKS),
             "kind_free_text": "deterministic simulator (Rust): seeded workloads, fault plans and shuttle-scheduled simulated worker pool replacing rayon ([patch.crates-io] shims in /verif/shims); reference models as oracles; minimised replay files"},
        ],
        "checks": checks,
        "notes": "One binary (sim); ./check <ID> quick|thorough. Exit 0 held / 1 VIOLATION / 2 harness or build error. Known findings: /verif/known_findings.json. See DESIGN.md.",
        "not_applicable": na,
    }
    with open(os.path.join(ROOT, "MANIFEST.json"), "w") as f:
        json.dump(m, f, indent=1)
        f.write("\n")

if __name__ == "__main__":
    main()
