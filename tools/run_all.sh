#!/bin/bash
# Runs every claimed check (tier $1, default quick) and prints one line per check.
tier="${1:-quick}"
cd "$(dirname "$0")/.." || exit 2
for id in $(python3 -c "import json;print(' '.join(c['property_id'] for c in json.load(open('MANIFEST.json'))['checks']))"); do
  start=$(date +%s.%N)
  out=$(./check "$id" "$tier" 2>&1); code=$?
  end=$(date +%s.%N)
  printf "%s exit=%s %.1fs %s\n" "$id" "$code" "$(echo "$end - $start" | bc)" "$(echo "$out" | grep -E '^(VIOLATION|KNOWN-FINDING|harness error)' | head -3 | tr '\n' ' ' | cut -c1-200)"
done
