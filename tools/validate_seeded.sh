#!/bin/bash
# Validates candidate seeded changes: for each /tmp/seed_out/<name>/ (patch.diff, demo.rs)
#  1. patch applies to a clean worktree of /repo HEAD, crate compiles, `cargo test --lib` passes (51)
#  2. demo fails with the patch, 3. demo passes without it.
# Usage: validate_seeded.sh <outfile> <name>...
OUT="$1"; shift
WT=/tmp/wt_validate
export CARGO_NET_OFFLINE=true
export CARGO_TARGET_DIR=$WT/target
if [ ! -d "$WT" ]; then
  git -C /repo worktree add --detach "$WT" HEAD >/dev/null 2>&1 || exit 2
  cp /repo/Cargo.lock "$WT/Cargo.lock"
fi
cd "$WT" || exit 2
for name in "$@"; do
  d=${SEED_DIR:-/tmp/seed_out}/$name
  git checkout -q -- . ; rm -f tests/demo.rs
  if ! git apply --check "$d/patch.diff" 2>/dev/null; then echo "$name: PATCH-DOES-NOT-APPLY" >> "$OUT"; continue; fi
  mkdir -p tests; cp "$d/demo.rs" tests/demo.rs
  # without patch
  if cargo test --offline --test demo >/tmp/val_$name.clean.log 2>&1; then clean=pass; else clean=FAIL; fi
  git apply "$d/patch.diff"
  if cargo test --offline --lib >/tmp/val_$name.lib.log 2>&1; then lib=pass; else lib=FAIL; fi
  nlib=$(grep -E '^test result' /tmp/val_$name.lib.log | head -1)
  if cargo test --offline --test demo >/tmp/val_$name.mut.log 2>&1; then mut=PASS; else mut=fail; fi
  echo "$name: demo-clean=$clean lib-with-patch=$lib [$nlib] demo-with-patch=$mut" >> "$OUT"
  git checkout -q -- . ; rm -f tests/demo.rs
done
echo "DONE" >> "$OUT"
