#!/bin/bash
# False-alarm test: applies every behaviour-preserving patch in /verif/benign/<name>/patch.diff to a
# scratch worktree of /repo (never to /repo itself) and runs EVERY claimed check (quick) against
# it; each must end with exit 0. Same lane mechanics as mutant_matrix_par.sh.
# Usage: benign_matrix_par.sh [lanes=4] [name-filter-regex] [dir=/verif/benign]
lanes="${1:-4}"
filter="${2:-.}"
src="${3:-/verif/benign}"
base=/tmp/bm_lanes
rm -rf "$base"; mkdir -p "$base"
ids=$(python3 -c "import json;print(' '.join(c['property_id'] for c in json.load(open('/verif/MANIFEST.json'))['checks']))")
i=0
for n in $(ls "$src" | grep -E "$filter"); do [ -f "$src/$n/patch.diff" ] || continue; echo "$n" >> "$base/list.$((i % lanes))"; i=$((i+1)); done

lane() {
  local k="$1" L="$base/lane$1"
  mkdir -p "$L/verif"
  git -C /repo worktree add --detach "$L/repo" HEAD >/dev/null 2>&1 || { echo "lane $k: cannot create worktree"; return 2; }
  cp /repo/Cargo.lock "$L/repo/" 2>/dev/null
  cp -r /verif/sim /verif/shims /verif/check /verif/known_findings.json "$L/verif/"
  rm -rf "$L/verif/sim/target"
  sed -i "s#path = \"/repo\"#path = \"$L/repo\"#" "$L/verif/sim/Cargo.toml"
  sed -i "s#target-dir = \"/verif/target\"#target-dir = \"$L/verif/target\"#" "$L/verif/sim/.cargo/config.toml"
  (cd "$L/verif" && VERIF_ROOT="$L/verif" ./check setup >/dev/null 2>&1) || { echo "lane $k: setup failed"; return 2; }
  [ -f "$base/list.$k" ] || return 0
  while read -r name; do
    d=$src/$name
    if ! git -C "$L/repo" apply "$d/patch.diff" 2>/dev/null; then
      echo "$name: PATCH DOES NOT APPLY" >> "$base/out.$k"; git -C "$L/repo" reset -q --hard HEAD; continue
    fi
    line="$name:"
    for id in $ids; do
      out=$(cd "$L/verif" && VERIF_ROOT="$L/verif" ./check "$id" quick 2>&1); code=$?
      if [ "$code" = "0" ]; then line="$line $id=0"; else
        line="$line $id=$code[ALARM $(echo "$out" | grep -m1 -E 'violation class|harness error' | sed 's/^ *//' | cut -c1-140)]"
        rp=$(echo "$out" | grep -m1 '^VIOLATION' | sed 's/.*replay=//')
        [ -n "$rp" ] && [ -f "$rp" ] && cp "$rp" "/tmp/benign_alarm_${name}_${id}.json"
      fi
    done
    echo "$line" >> "$base/out.$k"
    git -C "$L/repo" checkout -q -- .
  done < "$base/list.$k"
}

for k in $(seq 0 $((lanes-1))); do lane "$k" & done
wait
cat "$base"/out.* 2>/dev/null | sort
alarms=$(cat "$base"/out.* 2>/dev/null | grep -c -E "ALARM|DOES NOT APPLY")
for k in $(seq 0 $((lanes-1))); do git -C /repo worktree remove --force "$base/lane$k/repo" 2>/dev/null; done
git -C /repo worktree prune
rm -rf "$base"
[ "$alarms" = "0" ]
