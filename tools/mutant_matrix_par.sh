#!/bin/bash
# Re-runs every seeded change in /verif/seeded against the check recorded as detecting it, on
# several lanes at once. Each lane is a scratch worktree of /repo's HEAD plus a copy of the
# simulator sources under /tmp (own target directory), so /repo itself is never touched.
# Usage: mutant_matrix_par.sh [lanes=4] [name-filter-regex]
# Prints one line per change; exits 1 if any change does not end as recorded in its meta.json
# (exit 1 with a violation, or the recorded expected_exit). Lanes are removed afterwards.
lanes="${1:-4}"
filter="${2:-.}"
base=/tmp/mm_lanes
rm -rf "$base"; mkdir -p "$base"
names=$(ls /verif/seeded | grep -E "$filter")
i=0
for n in $names; do echo "$n" >> "$base/list.$((i % lanes))"; i=$((i+1)); done

lane() {
  local k="$1" L="$base/lane$1"
  mkdir -p "$L/verif"
  git -C /repo worktree add --detach "$L/repo" HEAD >/dev/null 2>&1 || { echo "lane $k: cannot create worktree"; return 2; }
  cp /repo/Cargo.lock "$L/repo/" 2>/dev/null
  cp -r /verif/sim /verif/shims /verif/check /verif/known_findings.json /verif/tools /verif/miri "$L/verif/"
  rm -rf "$L/verif/sim/target"
  sed -i "s#path = \"/repo\"#path = \"$L/repo\"#" "$L/verif/miri/Cargo.toml"
  sed -i "s#target-dir = \"/verif/target/miri\"#target-dir = \"$L/verif/target/miri\"#" "$L/verif/miri/.cargo/config.toml"
  sed -i "s#path = \"/repo\"#path = \"$L/repo\"#" "$L/verif/sim/Cargo.toml"
  sed -i "s#target-dir = \"/verif/target\"#target-dir = \"$L/verif/target\"#" "$L/verif/sim/.cargo/config.toml"
  (cd "$L/verif" && VERIF_ROOT="$L/verif" ./check setup >/dev/null 2>&1) || { echo "lane $k: setup failed"; return 2; }
  [ -f "$base/list.$k" ] || return 0
  while read -r name; do
    d=/verif/seeded/$name
    id=$(python3 -c "import json;m=json.load(open('$d/meta.json'));print((m.get('detected_by') or {}).get('check') or m['breaks_property'])")
    want=$(python3 -c "import json;m=json.load(open('$d/meta.json'));print(m.get('expected_exit',1) if not m.get('detected_by') else 1)")
    if ! git -C "$L/repo" apply "$d/patch.diff" 2>/dev/null && ! git -C "$L/repo" apply --3way "$d/patch.diff" 2>/dev/null; then
      echo "$name -> $id: PATCH DOES NOT APPLY" >> "$base/out.$k"; git -C "$L/repo" reset -q --hard HEAD; continue
    fi
    git -C "$L/repo" reset -q
    tierw=$(python3 -c "import json;m=json.load(open('$d/meta.json'));print((m.get('detected_by') or {}).get('tier') or 'quick')")
    if [ "$tierw" = thread-world ]; then
      # detected by the thorough tier's thread world (real rayon under Miri's seeded scheduler)
      out=$(cd "$L/verif" && VERIF_ROOT="$L/verif" ./check thread-world "$id" 4 32 2>&1); code=$?
    else
      out=$(cd "$L/verif" && VERIF_ROOT="$L/verif" ./check "$id" quick 2>&1); code=$?
    fi
    cls=$(echo "$out" | grep -m1 'violation class' | sed 's/^ *//')
    ok=MISS; [ "$code" = "$want" ] && ok=ok
    echo "$name -> $id: exit=$code (recorded $want) $ok  $cls" >> "$base/out.$k"
    # keep the minimised replay file of the detection next to the change
    rp=$(echo "$out" | grep -m1 '^VIOLATION' | sed 's/.*replay=//')
    if [ -n "$rp" ] && [ -f "$rp" ] && [ -n "${KEEP_REPLAYS:-}" ]; then cp "$rp" "$d/replay.json"; fi
    git -C "$L/repo" checkout -q -- .
  done < "$base/list.$k"
}

for k in $(seq 0 $((lanes-1))); do lane "$k" & done
wait
cat "$base"/out.* 2>/dev/null | sort
miss=$(cat "$base"/out.* 2>/dev/null | grep -c -E "MISS|DOES NOT APPLY")
for k in $(seq 0 $((lanes-1))); do git -C /repo worktree remove --force "$base/lane$k/repo" 2>/dev/null; done
git -C /repo worktree prune
rm -rf "$base"
[ "$miss" = "0" ]
