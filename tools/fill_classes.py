#!/usr/bin/env python3
"""Fills detected_by.violation_class in seeded/<name>/meta.json from a mutant_matrix_par.sh output
file (lines '<name> -> <ID>: exit=1 (recorded 1) ok  violation class: <class>'). Only empty
classes are filled; nothing else is touched. Usage: fill_classes.py <matrix output>"""
import json, re, sys
n = 0
for line in open(sys.argv[1]):
    m = re.match(r"(\S+) -> (C\d+): exit=1 \(recorded 1\) ok\s+violation class: (.*)$", line.rstrip())
    if not m:
        continue
    name, cid, cls = m.groups()
    p = f"/verif/seeded/{name}/meta.json"
    try:
        meta = json.load(open(p))
    except Exception:
        continue
    d = meta.get("detected_by")
    if isinstance(d, dict) and not d.get("violation_class"):
        d["violation_class"] = cls.strip()
        json.dump(meta, open(p, "w"), indent=1)
        n += 1
print("filled", n)
