#!/bin/bash
# Re-runs every seeded change in /verif/seeded against its target check (quick tier) and prints
# one line per change; exits 1 if any change is not caught. Needs exclusive use of /repo.
cd /verif || exit 2
miss=0
for d in seeded/*/; do
  name=$(basename "$d")
  # the check recorded as detecting it (the target check, except where meta.json names a sibling)
  id=$(python3 -c "import json;m=json.load(open('$d/meta.json'));print((m.get('detected_by') or {}).get('check') or m['breaks_property'])")
  line=$(tools/run_seeded.sh "/verif/$d" "$id" 2>&1 | tail -1)
  echo "$line"
  case "$line" in *"exit=1"*) ;; *) miss=1 ;; esac
done
rm -f replays/*.json
exit $miss
