#!/bin/bash
# Re-runs every seeded change in /verif/seeded against its target check (quick tier) and prints
# one line per change; exits 1 if any change is not caught. Needs exclusive use of /repo.
cd /verif || exit 2
miss=0
for d in seeded/*/; do
  name=$(basename "$d")
  # the check recorded as detecting it (the target check, except where meta.json names a sibling)
  id=$(python3 -c "import json;m=json.load(open('$d/meta.json'));print((m.get('detected_by') or {}).get('check') or m['breaks_property'])")
  # changes recorded as not decided (meta.json: expected_exit 2, see DESIGN.md 6.4) must stay undecided, never pass
  want=$(python3 -c "import json;m=json.load(open('$d/meta.json'));print(m.get('expected_exit',1) if not m.get('detected_by') else 1)")
  line=$(tools/run_seeded.sh "/verif/$d" "$id" 2>&1 | grep -m1 'exit=')
  echo "$line"
  case "$line" in *"exit=$want"*) ;; *) miss=1 ;; esac
done
rm -f replays/*.json
exit $miss
